#!/bin/bash
# tools/crossmatrix.sh <seed...>  — run the given seeds against EVERY check (scratch worktree), print a matrix row per seed
# and store it as cross_results in seeded/<seed>/meta.json.
set -u
export GOFLAGS=-mod=mod GOPROXY=off GOSUMDB=off GOTOOLCHAIN=local
cd /verif
WT=/tmp/crossmatrix-wt; OUT=/tmp/crossmatrix-out
git -C /repo worktree remove --force $WT 2>/dev/null; rm -rf $OUT; mkdir -p $OUT
git -C /repo worktree add --detach $WT HEAD -q || exit 2
trap 'git -C /repo worktree remove --force '$WT' 2>/dev/null; rm -rf '$OUT EXIT
IDS=$(python3 -c "import json;print(' '.join(c['property_id'] for c in json.load(open('MANIFEST.json'))['checks']))")
for s in "$@"; do
  [ -f seeded/$s/patch.diff ] || continue
  git -C $WT checkout -q -- . ; git -C $WT clean -fdq
  git -C $WT apply /verif/seeded/$s/patch.diff 2>/dev/null || { echo "$s: patch does not apply"; continue; }
  row=""
  for id in $IDS; do
    VERIF_REPO=$WT VERIF_BUILD=$OUT/build VERIF_OUT=$OUT ./check $id quick > $OUT/$s.$id.log 2>&1; rc=$?
    [ $rc = 1 ] && row="$row $id"
    [ $rc = 2 ] && row="$row $id(engine-error)"
  done
  echo "$s: caught by:$row"
  python3 - "$s" "$row" <<'PY'
import json,sys
s,row=sys.argv[1:3]
p=f'/verif/seeded/{s}/meta.json'
m=json.load(open(p)); m['caught_by_all_checks']=row.split(); json.dump(m,open(p,'w'),indent=1)
PY
done
