#!/bin/bash
# tools/verify_seed.sh <out-dir-of-agent> <seed-name> <property>
# Confirms a seeded change independently in a fresh scratch worktree: (1) the patch applies to /repo's HEAD,
# (2) the repository's own suite passes with it, (3) the demonstration passes without it and fails with it.
# On success copies patch.diff, demo, notes into /verif/seeded/<seed-name>/ and writes meta.json.
set -u
SRC=$1; NAME=$2; PROP=$3; XF=${4:-}
export GOFLAGS=-mod=mod GOPROXY=off GOSUMDB=off GOTOOLCHAIN=local
WT=/tmp/vseed-$NAME
git -C /repo worktree remove --force $WT 2>/dev/null
git -C /repo worktree add --detach $WT HEAD -q || exit 2
trap 'git -C /repo worktree remove --force '$WT' 2>/dev/null' EXIT
mkdir -p $WT/unittest/seed_demo && cp -r $SRC/demo/* $WT/unittest/seed_demo/
cd $WT
go test $XF -vet=off -count=1 ./unittest/seed_demo/... >/tmp/vseed-$NAME.without.log 2>&1; W0=$?
git apply $SRC/patch.diff || { echo "PATCH DOES NOT APPLY"; exit 1; }
go build ./... || { echo "BUILD FAILS"; exit 1; }
go test -vet=off -count=1 $(go list ./... | grep -v seed_demo) >/tmp/vseed-$NAME.suite.log 2>&1; S=$?
go test $XF -vet=off -count=1 ./unittest/seed_demo/... >/tmp/vseed-$NAME.with.log 2>&1; W1=$?
echo "demo without change: exit $W0; suite with change: exit $S; demo with change: exit $W1"
if [ $W0 = 0 ] && [ $S = 0 ] && [ $W1 != 0 ]; then
  D=/verif/seeded/$NAME; mkdir -p $D/demo
  cp $SRC/patch.diff $D/; cp -r $SRC/demo/* $D/demo/; [ -f $SRC/notes.md ] && cp $SRC/notes.md $D/
  cat > $D/meta.json <<JSON
{
 "property": "$PROP",
 "source": "independent sub-agent given only the property text and a scratch worktree",
 "verified": "tools/verify_seed.sh: demo passes on HEAD $(git -C /repo rev-parse --short HEAD) (exit $W0), repository suite passes with the patch (exit $S), demo fails with the patch (exit $W1)",
 "needs": "see notes.md",
 "detected_by": []
}
JSON
  echo "KEPT as $D"
else
  echo "REJECTED"; tail -5 /tmp/vseed-$NAME.without.log /tmp/vseed-$NAME.suite.log
fi
