#!/bin/bash
# tools/replay_test.sh <replay-file>  — replay one recorded violation as a plain `go test` (no orchestrator,
# no exploration), built from /repo's current tree with the same overlay as the checks.
set -u
cd "$(dirname "$0")/.."
export GOFLAGS=-mod=mod GOPROXY=off GOSUMDB=off GOTOOLCHAIN=local
F=$(realpath "${1:?replay file}")
B=$PWD/.build; mkdir -p $B
[ -x $B/instr ] || (cd instr && go build -o $B/instr .)
rm -rf $B/ov && mkdir -p $B/ov && $B/instr /repo $B/ov $PWD/shim || exit 2
RACE=""
case "$(python3 -c "import json,sys;print(json.load(open('$F'))['property'])")" in C14|C20) RACE="-race";; esac
GORACE="halt_on_error=0 exitcode=0 log_path=$B/replay-race" VERIF_REPLAY=$F go test $RACE -tags verif -overlay $B/ov/overlay.json -vet=off -count=1 -run TestReplay -v ./props 2>&1 | grep -v '^\[ioc\]' | tail -15
