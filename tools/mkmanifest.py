#!/usr/bin/env python3
"""Regenerates /verif/MANIFEST.json from the table below (claimed checks) and properties.jsonl."""
import json, os
ROOT = os.path.dirname(os.path.dirname(os.path.abspath(__file__)))
ids = [json.loads(l)['id'] for l in open(os.path.join(ROOT, 'properties.jsonl'))]

E1 = "E1 envx: deviation-bounded DFS over environment choice points around real app.Run"
CLAIMED = {
 "C01": dict(engine=E1, design="§7 C01",
   technique="bounded exhaustive enumeration of dependency graphs x registration/iteration orders on the real container (stateless explicit-state exploration, deviation-bounded DFS over order choice points)",
   text="Every labelled 3-node dependency graph over six edge kinds, under every listed registration/iteration order (plus every single non-default iteration-order answer for the three-kind family and all early-reference wrap plans) is started on the real container; pointer identity of every holder field, slice element, by-name and by-type lookup is compared on every execution. Exhaustive within the bound, not sampled.",
   note="Trusted: the harness shim that fixes sync.Map/Go-map iteration order (generated overlay, real primitives inside); reference model of which node each point targets. Outside: >3 nodes (thorough: 4), more than 1 (thorough 2) order deviations."),
 "C02": dict(engine=E1, design="§7 C02",
   technique="bounded exhaustive enumeration of all labelled digraphs (n<=3, with self loops; thorough n<=5) and complete structured families (cycles to 256 nodes, complete digraphs, 2-cycle chains) executed on the real container; reference-model oracle; termination by call/nesting budgets",
   text="All 4+256+262144 labelled digraphs with self loops over {none, required, optional, slice member} for n<=3, both base orders, plus structured cyclic families, are each executed as a real start. Oracle: must-fail iff a required point can only be satisfied by its holder, otherwise success with every point holding its target, never the holder; non-termination is detected by registry call/nesting budgets derived from the program.",
   note="Trusted: iteration-order shim; budgets (400*(N+E)+4000 registry calls, nesting N+15) as the definition of 'terminates'. Outside: arbitrary graphs with n>3 (thorough: n=4 three kinds, n=5 two kinds), random large graphs are replaced by complete structured families."),
 "C03": dict(engine=E1, design="§7 C03",
   technique="bounded exhaustive enumeration of graphs x per-node substitution plans x orders on the real container with a real SmartInstantiationAware post-processor; version-consistency oracle",
   text="All 729 labelled 3-node graphs x all 6^3 wrap plans x both base orders (plus 2-node programs with every single iteration-order deviation) are started for real; if Run succeeds every holder and the by-name lookup must see one object per component.",
   note="Trusted: iteration-order shim; wrappers are assignable only to interface slots. Outside: n>3 (thorough: n=4, two kinds), substitution in BeforeInstantiation."),
 "C04": dict(engine="E3 op-tree enumeration on the real singleton registry + E1 starts with single faults", design="§7 C04",
   technique="explicit-state exploration of all well-nested registry operation trees (<=4 ops, nesting <=2; thorough <=5/3) on fresh real registries against a reference automaton, plus the automaton monitored on real starts with every single injected fault followed by repeated lookups",
   text="Layer 1 enumerates every operation tree over {Get(n,early?), InCreation(n), Create(n){body}->ok|err x ok|failing early factory} on names {a,b} up to the bound on a fresh real registry, checking on every step: one early reference per attempt, published instance is the only answer afterwards, no re-run of the factory, and after a failed creation no in-creation mark, no instance with nil error, and a new Create re-runs the factory. Layers 2/3 monitor the same automaton on every registry call of 3-node graph starts with every single fault site armed, then look every name up three times.",
   note="Trusted: the monitoring wrapper around the real registry (installed through an overlay-added constructor). Outside: >2 names / >5 operations at registry level; pairs of faults (C09 covers pairs for its own oracle)."),
 "C06": dict(engine=E1, design="§7 C06",
   technique="bounded exhaustive enumeration of provider populations over a typed universe x consumer field kinds x iteration orders on the real container; admissible-set reference model",
   text="All 5^6 populations over six provider types (exact pointer type, three interfaces, same-struct twin type, lazy provider; absent / default-named / named / both / two named) are started with a consumer carrying every field kind (*T, I, []*T, []I, any, []any, func-tag forms) under both base orders; 3^6 populations x 13 required single-point consumers; small populations under every single non-default iteration answer. Per point: slice = every admissible component exactly once except the holder; single = an admissible one; none admissible => error iff required.",
   note="Trusted: iteration-order shim; the admissible-set model (type identity, interface implementation, method presence/result). Outside: methods with parameters, more than two instances per type."),
 "C07": dict(engine=E1+" + sequence enumeration on the real singleton registry", design="§7 C07",
   technique="bounded exhaustive enumeration of provider populations x name assignments x requested names x field kinds x required/optional x sibling placements on the real container; all registration sequences (<=4) with colliding names on the real registry",
   text="Every population of <=3 providers over {TA,TB,TD} x {x,y,default name} with distinct registered names x requested name {x,y,TA's default name,absent} x field kind {*TA, I1, any} x required/optional x four sibling-field arrangements x both iteration orders is started for real (holders built with reflect.StructOf); oracle: field is exactly the component registered under the name; absent or not assignable => error (no panic) if required, untouched and no error if optional. All 7380 registration sequences (length <=4) over nine instances with colliding names (custom = custom, custom = another default name, two default-named, zero-size and embedded-field components sharing an address): each name maps to its first instance.",
   note="Trusted: reflect.StructOf holders behave like declared structs (C11 checks twins); iteration-order shim. Outside: >3 providers; by-name tags on slice fields."),
 "C08": dict(engine=E1, design="§7 C08",
   technique="bounded exhaustive enumeration of provider populations x holder shapes x every permutation of candidate iteration order on the real container; per-field ranking reference model",
   text="All provider multisets of size <=3 over {plain,primary} x {custom,default name} x qualifier {undeclared,'',g1,g2} are combined with holders (reflect.StructOf) carrying single and slice fields with each of six qualifier arguments, an optional no-candidate field at every position, pairs of independently qualified fields, and optional variants; every permutation of the providers' iteration order is started for real. Per field independently: nothing outside the requested qualifier set is injected, slices hold exactly the survivors, a unique Primary wins, else a unique default-named component, else any survivor; no survivor => error iff required.",
   note="Trusted: iteration-order shim; StructOf holders. Outside: >3 providers (thorough 4), more than three fields per holder."),
 "C09": dict(engine=E1, design="§7 C09",
   technique="fault enumeration by deviation-bounded DFS over reached fault sites (all singles, all reachable pairs) on the real container, plus unsatisfiable required/optional points and configuration values as exhaustive program variants",
   text="All 729 three-node graphs x three lazy masks, each with a configuration value per node, a user post-processor implementing every callback, a scanner, a factory post-processor, two loaders and two runners: every reached callback site (AfterPropertiesSet, Init, BeforeInstantiation, AfterInstantiation, Properties, EarlyReference, Before/AfterInitialization per node, scanner per node, factory post-processor, loaders, runners) is armed alone and in every reachable pair. Oracle: Run returns an error, no panic (also none in spawned goroutines), terminates within budget, and no runner runs unless the first fault is a runner's. 26k variants with one unsatisfiable by-name / by-type / configuration point (required or optional) on each node: required => error, optional => identical wiring and event log to the program without the point and zero value in the field.",
   note="Trusted: harness callbacks (faults are returned errors); termination budgets. Outside: three or more simultaneous faults; panicking user callbacks."),
 "C12": dict(engine="E4 exhaustive input enumeration + E1 starts", design="§7 C12",
   technique="bounded exhaustive enumeration of all participant sequences (three ordering classes x five Order values incl. MinInt/MaxInt) through the real sorting helper (length <=6) and through real starts as post-processors, runners and loaders (length <=3) under every registry iteration order",
   text="All 1.9M sequences of length <=6 over {PriorityOrdered(o), Ordered(o), unordered: o in {MinInt,-1,0,1,MaxInt}} go through the real SortOrderedComponents; all sequences of length <=3 are registered as user post-processors, application runners and configuration loaders and started for real under every permutation of the registry iteration order / loader-adding order. Oracle: output is a permutation (identity of elements), classes in order P<O<N, Order non-decreasing inside P and inside O, and the observed invocation log of the callbacks is such a sequence with every participant exactly once.",
   note="Trusted: harness participants' event log. Outside: more than 6 participants directly / 3 through a start (thorough 7 / 4); Order values other than the five."),
 "C13": dict(engine=E1, design="§7 C13",
   technique="bounded exhaustive enumeration of runner sets x failing runner x backgrounds x iteration orders on the real container; event-log oracle",
   text="Every sequence of <=3 runners over {PriorityOrdered(o), Ordered(o), unordered: o in {MinInt,-1,0,1,MaxInt}} x {all eager, all lazy} x each choice of failing runner (or none) x three component backgrounds (chain, cycle, lazy dependency) x two iteration orders is started for real. Oracle: every runner exactly once, only after every needed component logged its initialisation, in ordering-contract sequence; with a failing runner Run returns an error, the invocation sequence ends with the failing runner, every strictly earlier-ranked runner ran and no strictly later-ranked one did.",
   note="Trusted: harness runners' event log. Outside: >3 runners; equal-rank runners around a failure are unconstrained."),
 "C15": dict(engine=E1, design="§7 C15",
   technique="bounded exhaustive enumeration of source-configuration histories (<=3 option steps x loader kinds x key trees) on the real App/Configure/viper stack; deep-merge reference model",
   text="All 219660 sequences of <=3 steps over {SetConfigLoader, AddConfigLoader, SetConfig(file), Configure.AddLoaders} x {raw, file, command-line args} x six documents (overlapping and disjoint keys, nested map) are started for real; App.Get of every path of the union tree must equal the deep merge of the individually parsed loader outputs taken files-first then in added order, every source configured before an adding option must still be visible, and a prefix-bound struct plus a prop-bound scalar must agree with App.Get.",
   note="Trusted: yaml parsing of the individual documents for the reference; two file loaders are equally ranked. Outside: >3 steps (thorough 4 on a reduced alphabet), paths that change between map and scalar."),
 "C16": dict(engine="E4 exhaustive input enumeration through E1 starts", design="§7 C16",
   technique="bounded exhaustive enumeration of tag texts x configurations x tag kinds on the real container; reference evaluator for acyclic cases; termination decided by a Configure.Get-call budget",
   text="Every tag of <=2 segments (custom tag: <=3) over eleven literal/placeholder forms (defaults, empty map/list, nested key, nested default) x 56 configurations (absent / plain / referring to the other key / self-referential / self-growing / numeric) x three tag kinds (custom tag text seen by a recording processor, value tag bound to a string, by-name wire tag) is started for real. Acyclic: substituted text / bound value / injected component equal the reference evaluator. Cyclic or self-growing: an error or an empty value; exceeding 5000 Configure.Get calls in one start is non-termination.",
   note="Trusted: the reference evaluator (innermost-first, re-evaluating configured text); harness binder around the real ViperBinder. Outside: unbalanced ${ fragments, number-like defaults (C17), more than three segments."),
 "C17": dict(engine="E4 exhaustive input enumeration through E1 starts", design="§7 C17",
   technique="bounded exhaustive enumeration: value x field-type x binding-path matrix (same-kind pairs) and every string of length <=4 over a 14-symbol risky alphabet through all four binding paths on the real container; oracle = strict YAML decoding / prefix twin / as written",
   text="37 configured values (integers to MaxInt64, floats, booleans, 19 strings incl. number-like, boolean-like, quoted, bracketed, map-like, JSON-like, empty, padded; lists; maps) x 14 field types x {prefix, value placeholder, prop shorthand, literal} for every same-kind pair, one real start per cell; plus all 41 370 strings of length <=4 over {0,1,.,e,-,a,T,space,[,comma,',:,\",}} bound to string fields by prefix, value, prop and as a literal. Known findings (32, listed individually in known_findings.json): `any`-typed targets through value/prop receive the re-parsed text, and a configured empty string is treated as absent.",
   note="Trusted: yaml.v3 strict decoding as the reference conversion; numbers compared by value for any / map[string]any targets. Outside: cross-kind pairs, strings longer than 4 (thorough 5), values containing ${ or #{ (placeholder/expression syntax)."),
 "C10": dict(engine=E1+" (+E2 scheduler for scan-phase schedules)", design="§7 C10",
   technique="differential bounded exhaustive exploration: each program under all permutations of iteration and registration order plus every single per-call order deviation on the real container; outcome signatures (tied points masked) must coincide",
   text="C08 families under all provider permutations (registration order follows), holders that are candidates for their own field with <=2 other candidates under all permutations of (providers, holder), all 2-node graphs with self loops and 3-node graphs under all 6x6 (iteration, registration) orders, and 2-provider programs under every single non-default answer of every registry enumeration: the signature (success, per-point target, sorted slice contents, ties masked) must be identical across all executions of one program.",
   note="Trusted: iteration-order shim owns every sync.Map / map range of the repository; tie definition from C08's reference. Outside: >3 providers, >1 (thorough 2) per-call deviations."),
 "C05": dict(engine=E1, design="§7 C05",
   technique="bounded exhaustive enumeration of graphs x lazy/eager x observer sets x iteration orders (deviation bound 1) on the real container; event-log oracle",
   text="All 3-node graphs x 8 lazy assignments x {0,1,2} observing processors x orders (all 6 base permutations; every single non-default iteration answer) are started for real; the event log must show exactly one populate->before->AfterPropertiesSet->Init->after sequence per created node, population complete before before-init (snapshot), non-back-depending dependencies initialised first, lazy nodes only on demand and exactly once.",
   note="Trusted: iteration-order shim, harness event log. Outside: n>3 (thorough n=4), substituting processors (C03)."),
}

def check(i, c):
    return {
     "property_id": i,
     "quick_cmd": f"./check {i} quick",
     "thorough_cmd": f"./check {i} thorough",
     "evidence_file": f"/verif/evidence/{i}.json",
     "replay_cmd_template": f"./check {i} --replay {{path}}",
     "engine": c["engine"],
     "level_claimed": {"category": "model_checking", "text": c["text"], "design_ref": c["design"]},
     "level_note": c["note"],
     "technique": c["technique"],
    }

m = {
 "version": 1,
 "setup_cmd": "./check --setup",
 "hooks": {
  "guard": "verif",
  "enable": "no source commit is needed: ./check generates a `go build -overlay` from /repo's current files (typed rewrite of sync imports, go statements and map ranges to the shim package; one added file container/factory/zz_factory_verif.go guarded by //go:build verif) and builds the workers with -tags verif -overlay",
  "baseline_off_cmd": "cd /repo && GOFLAGS=-mod=mod GOPROXY=off go test -vet=off -count=1 ./...",
  "source_commits": [],
  "add_only": True,
 },
 "engines": [
  {"name": "envx", "path": "internal/envx", "serves_properties": sorted(CLAIMED), "kind_free_text": "stateless deviation-bounded DFS over choice sequences (iteration order, faults, schedules); executions are real container starts"},
  {"name": "vsync+instr", "path": "shim/vsync, instr", "serves_properties": sorted(CLAIMED), "kind_free_text": "typed source instrumenter + sync shim: cooperative scheduler (tsan-invisible hand-offs under -race), harness-owned map / sync.Map iteration order"},
 ],
 "checks": [check(i, CLAIMED[i]) for i in ids if i in CLAIMED],
 "not_applicable": [{"property_id": i, "reason": "check under construction in this session (DESIGN.md §7 describes it); will be claimed once it runs green on the unchanged tree"} for i in ids if i not in CLAIMED],
 "notes": "All checks decide by exhaustive bounded exploration on the real code (model checking of the implementation); see DESIGN.md.",
}
json.dump(m, open(os.path.join(ROOT, 'MANIFEST.json'), 'w'), indent=1)
print("claimed:", sorted(CLAIMED))
