#!/bin/bash
# tools/tryseed.sh <seed-name> <ID> [tier]  — apply a kept seeded change to /repo, run one check, undo it.
set -u
NAME=$1; ID=$2; TIER=${3:-quick}
git -C /repo diff --quiet || { echo "/repo has uncommitted changes"; exit 2; }
git -C /repo apply /verif/seeded/$NAME/patch.diff || exit 2
OUT=/tmp/tryseed-out; rm -rf $OUT; mkdir -p $OUT
VERIF_OUT=$OUT /verif/check $ID $TIER > /tmp/tryseed-$NAME-$ID.log 2>&1; RC=$?   # evidence/replays of a mutated tree never land in /verif
git -C /repo checkout -- . ; git -C /repo clean -fdq
echo "seed=$NAME check=$ID tier=$TIER exit=$RC violations=$(grep -c '^VIOLATION' /tmp/tryseed-$NAME-$ID.log)"
grep -A2 -m2 '^VIOLATION\|^ENGINE' /tmp/tryseed-$NAME-$ID.log | cut -c1-300
tail -1 /tmp/tryseed-$NAME-$ID.log | cut -c1-250
