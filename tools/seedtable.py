#!/usr/bin/env python3
"""Prints the markdown seed matrix from seeded/*/meta.json and (with --write) puts it into DESIGN.md
in place of the line SEEDTABLE / between the SEEDTABLE markers."""
import json, glob, os, sys, re
ROOT = os.path.dirname(os.path.dirname(os.path.abspath(__file__)))
rows = []
for d in sorted(glob.glob(os.path.join(ROOT, 'seeded', '*'))):
    mf = os.path.join(d, 'meta.json')
    if not os.path.exists(mf):
        continue
    m = json.load(open(mf))
    note = ''
    nf = os.path.join(d, 'notes.md')
    cr = m.get('check_result', {})
    verdict = {1: 'detected', 0: '**missed**', 2: 'engine error'}.get(cr.get('exit'), 'not run')
    if m.get('obsolete_since'):
        verdict = f"detected on the tree it was written for; obsolete since fix `{m['obsolete_since']}` (the edited line no longer exists)"
    first = (cr.get('first_violation') or '').strip().replace('|', '/')[:110]
    what = m.get('summary') or ''
    rows.append(f"| `{os.path.basename(d)}` | {m['property']} | {what} | {verdict} | {first} |")
table = "| seed | property | change | check of that property (quick) | first violation line |\n|---|---|---|---|---|\n" + "\n".join(rows)
if '--write' in sys.argv:
    p = os.path.join(ROOT, 'DESIGN.md')
    s = open(p).read()
    block = "<!-- SEEDTABLE -->\n" + table + "\n<!-- /SEEDTABLE -->"
    if '<!-- SEEDTABLE -->' in s:
        s = re.sub(r'<!-- SEEDTABLE -->.*?<!-- /SEEDTABLE -->', lambda _: block, s, flags=re.S)
    else:
        s = s.replace('\nSEEDTABLE\n', '\n' + block + '\n')
    open(p, 'w').write(s)
else:
    print(table)
