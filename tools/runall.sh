#!/bin/bash
# tools/runall.sh [tier]  — run every claimed check on /repo's current tree (regenerates evidence/*.json)
cd "$(dirname "$0")/.."
TIER=${1:-quick}
for id in $(python3 -c "import json;print(' '.join(c['property_id'] for c in json.load(open('MANIFEST.json'))['checks']))"); do
  ./check $id $TIER 2>&1 | grep -v '^KNOWN-FINDING' | tail -1 | cut -c1-220
done
