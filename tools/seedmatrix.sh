#!/bin/bash
# tools/seedmatrix.sh [seed-name ...]   — run every kept seeded change against the check of its property
# (in a scratch worktree, /repo untouched) and record the verdict in seeded/<name>/meta.json.
set -u
export GOFLAGS=-mod=mod GOPROXY=off GOSUMDB=off GOTOOLCHAIN=local
ROOT=${SEEDMATRIX_ROOT:-/verif}   # a snapshot of /verif may run the matrix (vp run): results land in its seeded/*/meta.json
cd $ROOT
SEEDS=${@:-$(ls seeded)}
WT=/tmp/seedmatrix-wt.$$; OUT=/tmp/seedmatrix-out.$$   # per invocation: two matrices may run side by side
git -C /repo worktree remove --force $WT 2>/dev/null; rm -rf $OUT; mkdir -p $OUT
git -C /repo worktree add --detach $WT HEAD -q || exit 2
trap 'git -C /repo worktree remove --force '$WT' 2>/dev/null; rm -rf '$OUT EXIT
for s in $SEEDS; do
  [ -f seeded/$s/patch.diff ] || continue
  prop=$(python3 -c "import json;print(json.load(open('seeded/$s/meta.json'))['property'])")
  if grep -q obsolete_since seeded/$s/meta.json; then echo "$s: obsolete (see meta.json)"; continue; fi
  git -C $WT checkout -q -- . ; git -C $WT clean -fdq
  if ! git -C $WT apply $ROOT/seeded/$s/patch.diff 2>/dev/null; then echo "$s: patch does not apply to HEAD"; continue; fi
  VERIF_REPO=$WT VERIF_BUILD=$OUT/build VERIF_OUT=$OUT ./check $prop quick > $OUT/$s.log 2>&1; rc=$?
  first=$(grep -m1 -A2 '^VIOLATION' $OUT/$s.log | tail -1 | cut -c1-220)
  echo "$s: check $prop exit=$rc  $first"
  python3 - "$s" "$prop" "$rc" "$first" "$ROOT" <<'PY'
import json,sys
s,prop,rc,first,root=sys.argv[1:6]
p=f'{root}/seeded/{s}/meta.json'
m=json.load(open(p))
m['detected_by']=[prop] if rc=='1' else []
m['check_result']={'check':prop,'tier':'quick','exit':int(rc),'first_violation':first}
json.dump(m,open(p,'w'),indent=1)
PY
done
