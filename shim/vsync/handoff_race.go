//go:build race

package vsync

import (
	"syscall"
	"unsafe"
)

// RaceBuild tells the harness that hand-offs are invisible to the race detector.
const RaceBuild = true

// handle parks/wakes a goroutine through a private pipe using raw syscalls: no
// race.Acquire/Release annotations, hence no happens-before edge visible to tsan.
type handle struct{ rfd, wfd int }

//go:norace
func newHandle() handle {
	var p [2]int
	if err := syscall.Pipe(p[:]); err != nil {
		panic(err)
	}
	return handle{p[0], p[1]}
}

//go:norace
func (h handle) close() {
	syscall.Close(h.rfd)
	syscall.Close(h.wfd)
}

//go:norace
func (h handle) wake() {
	var b [1]byte
	for {
		_, _, e := syscall.Syscall(syscall.SYS_WRITE, uintptr(h.wfd), uintptr(unsafe.Pointer(&b[0])), 1)
		if e == syscall.EINTR {
			continue
		}
		if e != 0 {
			panic(e)
		}
		return
	}
}

//go:norace
func (h handle) park() {
	var b [1]byte
	for {
		n, _, e := syscall.Syscall(syscall.SYS_READ, uintptr(h.rfd), uintptr(unsafe.Pointer(&b[0])), 1)
		if e == syscall.EINTR {
			continue
		}
		if e != 0 || n == 0 {
			// the pipe was closed by the Begin of a later execution: this goroutine was leaked by a
			// deadlocked execution and must never run again
			select {}
		}
		return
	}
}
