package vsync

import "reflect"

// Channel operations under the scheduler. The instrumenter rewrites `ch <- v` (to ChanSendFn), `<-ch`,
// `v, ok := <-ch`, `close(ch)` and `for x := range ch` in repository code to these functions.
// The real channel operation is still executed (tsan sees its happens-before edges); the shim
// only decides *when*, so that it never blocks the one running goroutine:
//   - buffered channel: a send waits (in the model) while the buffer is full, a receive while it
//     is empty and the channel is open;
//   - unbuffered channel: the first party to arrive waits; when its counterpart arrives, the
//     counterpart wakes the waiting goroutine just long enough to perform its half of the real
//     rendezvous and stays the running goroutine itself.

const (
	chSend = 1
	chRecv = 2
)

// Plain slices, not Go maps: the runtime's map functions carry race annotations of their own,
// which would make the scheduler's bookkeeping visible to tsan.
var (
	closedList []uintptr
	waitList   []*thread // parties waiting on an unbuffered channel (chID / chKind say which)
)

//go:norace
func chanReset() {
	closedList, waitList = nil, nil
}

//go:norace
func isClosed(id uintptr) bool {
	for _, c := range closedList {
		if c == id {
			return true
		}
	}
	return false
}

//go:norace
func chanID(ch any) uintptr { return reflect.ValueOf(ch).Pointer() }

//go:norace
func popWaiter(id uintptr, kind int) *thread {
	for i, w := range waitList {
		if w.chID == id && w.chKind == kind {
			waitList = append(append([]*thread{}, waitList[:i]...), waitList[i+1:]...)
			return w
		}
	}
	return nil
}

// rendezvous lets the waiting goroutine w perform its half of the operation.
//
//go:norace
func rendezvous(w *thread) {
	w.chBlocked = false
	w.chGo = true
	w.h.wake()
}

// afterPark is called by a goroutine whenever it is woken: a wake-up with chGo set is not a
// scheduling hand-off but the request to perform the pending channel operation.
//
//go:norace
func (t *thread) afterPark() {
	for t.chGo {
		t.chGo = false
		op := t.chOp
		t.chOp = nil
		op()
		t.h.park()
	}
}

// ChanSendFn performs the send `op` (a closure `func() { ch <- v }` built by the instrumenter, so
// that the real operation stays in instrumented repository code) when the model allows it.
//
//go:norace
func ChanSendFn(ch any, op func()) {
	if !Active {
		op()
		return
	}
	self := cur
	rv := reflect.ValueOf(ch)
	id := rv.Pointer()
	if rv.Cap() > 0 {
		self.chBuf, self.chKind, self.chID = rv, chSend, id
		schedule(self)
		self.chBuf, self.chKind = reflect.Value{}, 0
		op() // the buffer has room (or the channel is closed: panics as the real program would)
		return
	}
	schedule(self)
	if isClosed(id) {
		op() // panics: send on closed channel
		return
	}
	if w := popWaiter(id, chRecv); w != nil {
		rendezvous(w)
		op()
		return
	}
	self.chKind, self.chID, self.chBlocked = chSend, id, true
	self.chOp = op
	waitList = append(waitList, self)
	schedule(self)
	self.chKind = 0
}

//go:norace
func ChanRecv2[T any](ch <-chan T) (v T, ok bool) {
	if !Active {
		v, ok = <-ch
		return
	}
	self := cur
	id := chanID(ch)
	if cap(ch) > 0 {
		self.chBuf, self.chKind, self.chID = reflect.ValueOf(ch), chRecv, id
		schedule(self)
		self.chBuf, self.chKind = reflect.Value{}, 0
		v, ok = <-ch
		return
	}
	schedule(self)
	if isClosed(id) {
		v, ok = <-ch
		return
	}
	if w := popWaiter(id, chSend); w != nil {
		rendezvous(w)
		v, ok = <-ch
		return
	}
	self.chKind, self.chID, self.chBlocked = chRecv, id, true
	self.chOp = func() { v, ok = <-ch }
	waitList = append(waitList, self)
	schedule(self)
	self.chKind = 0
	return
}

//go:norace
func ChanRecv[T any](ch <-chan T) T {
	v, _ := ChanRecv2(ch)
	return v
}

//go:norace
func ChanClose[T any](ch chan<- T) {
	if !Active {
		close(ch)
		return
	}
	schedule(cur)
	id := chanID(ch)
	closedList = append(closedList, id)
	close(ch)
	// waiting parties of an unbuffered channel are released by the close: receivers get the
	// zero value, senders panic - each performs its own real operation
	var keep []*thread
	for _, w := range waitList {
		if w.chID == id {
			rendezvous(w)
		} else {
			keep = append(keep, w)
		}
	}
	waitList = keep
}
