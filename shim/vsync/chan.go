package vsync

import (
	"reflect"
	"time"
)

// Channel operations under the scheduler. The instrumenter rewrites `ch <- v` (to ChanSendFn), `<-ch`,
// `v, ok := <-ch`, `close(ch)` and `for x := range ch` in repository code to these functions.
// The real channel operation is still executed (tsan sees its happens-before edges); the shim
// only decides *when*, so that it never blocks the one running goroutine:
//   - buffered channel: a send waits (in the model) while the buffer is full, a receive while it
//     is empty and the channel is open;
//   - unbuffered channel: the first party to arrive waits; when its counterpart arrives, the
//     counterpart wakes the waiting goroutine just long enough to perform its half of the real
//     rendezvous and stays the running goroutine itself.

const (
	chSend = 1
	chRecv = 2
)

// Plain slices, not Go maps: the runtime's map functions carry race annotations of their own,
// which would make the scheduler's bookkeeping visible to tsan.
var (
	closedList []uintptr
	closedKeep []any     // the closed channels themselves: keeps them alive so that no new channel gets a listed address
	waitList   []*thread // parties waiting on an unbuffered channel (chID / chKind say which)
)

//go:norace
func chanReset() {
	closedList, closedKeep, waitList, timerList = nil, nil, nil, nil
}

//go:norace
func isClosed(id uintptr) bool {
	for _, c := range closedList {
		if c == id {
			return true
		}
	}
	return false
}

//go:norace
func chanID(ch any) uintptr { return reflect.ValueOf(ch).Pointer() }

//go:norace
func popWaiter(id uintptr, kind int) *thread {
	for i, w := range waitList {
		if w.chID == id && w.chKind == kind {
			waitList = append(append([]*thread{}, waitList[:i]...), waitList[i+1:]...)
			return w
		}
	}
	return nil
}

// rendezvous lets the waiting goroutine w perform its half of the operation.
//
//go:norace
func rendezvous(w *thread) {
	w.chBlocked = false
	w.chGo = true
	w.h.wake()
}

// afterPark is called by a goroutine whenever it is woken: a wake-up with chGo set is not a
// scheduling hand-off but the request to perform the pending channel operation.
//
//go:norace
func (t *thread) afterPark() {
	for t.chGo {
		t.chGo = false
		op := t.chOp
		t.chOp = nil
		op()
		t.h.park()
	}
}

// ChanSendFn performs the send `op` (a closure `func() { ch <- v }` built by the instrumenter, so
// that the real operation stays in instrumented repository code) when the model allows it.
//
//go:norace
func ChanSendFn(ch any, op func()) {
	if !Active {
		op()
		return
	}
	self := cur
	rv := reflect.ValueOf(ch)
	id := rv.Pointer()
	if rv.Cap() > 0 {
		self.chBuf, self.chKind, self.chID = rv, chSend, id
		schedule(self)
		self.chBuf, self.chKind = reflect.Value{}, 0
		op() // the buffer has room (or the channel is closed: panics as the real program would)
		return
	}
	schedule(self)
	if isClosed(id) {
		op() // panics: send on closed channel
		return
	}
	if w := popWaiter(id, chRecv); w != nil {
		rendezvous(w)
		op()
		return
	}
	self.chKind, self.chID, self.chBlocked = chSend, id, true
	self.chOp = op
	waitList = append(waitList, self)
	schedule(self)
	self.chKind = 0
}

//go:norace
func ChanRecv2[T any](ch <-chan T) (v T, ok bool) {
	if !Active {
		v, ok = <-ch
		return
	}
	self := cur
	id := chanID(ch)
	if _, tm := isTimer(id); tm {
		schedule(self)
		fireTimer(id)
		v, ok = <-ch
		return
	}
	if cap(ch) > 0 {
		self.chBuf, self.chKind, self.chID = reflect.ValueOf(ch), chRecv, id
		schedule(self)
		self.chBuf, self.chKind = reflect.Value{}, 0
		v, ok = <-ch
		return
	}
	schedule(self)
	if isClosed(id) {
		v, ok = <-ch
		return
	}
	if w := popWaiter(id, chSend); w != nil {
		rendezvous(w)
		v, ok = <-ch
		return
	}
	self.chKind, self.chID, self.chBlocked = chRecv, id, true
	self.chOp = func() { v, ok = <-ch }
	waitList = append(waitList, self)
	schedule(self)
	self.chKind = 0
	return
}

//go:norace
func ChanRecv[T any](ch <-chan T) T {
	v, _ := ChanRecv2(ch)
	return v
}

//go:norace
func ChanClose[T any](ch chan<- T) {
	if !Active {
		close(ch)
		return
	}
	schedule(cur)
	id := chanID(ch)
	closedList = append(closedList, id)
	closedKeep = append(closedKeep, ch)
	close(ch)
	// waiting parties of an unbuffered channel are released by the close: receivers get the
	// zero value, senders panic - each performs its own real operation
	var keep []*thread
	for _, w := range waitList {
		if w.chID == id {
			rendezvous(w)
		} else {
			keep = append(keep, w)
		}
	}
	waitList = keep
}

// ---- select

// SelCase is one communication clause of a rewritten select statement.
type SelCase struct {
	ch   reflect.Value
	send bool
	val  reflect.Value // value to send
	dst  reflect.Value // pointer receiving the value (may be invalid)
	ok   *bool
}

// SelRecv builds a receive clause; dst (pointer to a variable of the element type) and ok may be nil.
//
//go:norace
func SelRecv(ch any, dst any, ok *bool) SelCase {
	c := SelCase{ch: reflect.ValueOf(ch), ok: ok}
	if dst != nil {
		c.dst = reflect.ValueOf(dst)
	}
	return c
}

// SelSend builds a send clause.
//
//go:norace
func SelSend(ch any, v any) SelCase {
	c := SelCase{ch: reflect.ValueOf(ch), send: true}
	c.val = reflect.ValueOf(v)
	elem := c.ch.Type().Elem()
	if !c.val.IsValid() {
		c.val = reflect.Zero(elem)
	} else if !c.val.Type().AssignableTo(elem) && c.val.Type().ConvertibleTo(elem) {
		c.val = c.val.Convert(elem) // untyped constant hoisted into a variable by the instrumenter
	}
	return c
}

// ZeroRecv declares variables of a channel's element type without spelling the type.
func ZeroRecv[T any](ch <-chan T) (z T, ok bool) { return }

//go:norace
func (c *SelCase) ready() bool {
	if c.ch.IsNil() {
		return false
	}
	id := c.ch.Pointer()
	if _, tm := isTimer(id); tm && !c.send {
		return true
	}
	if c.ch.Cap() > 0 {
		if c.send {
			return c.ch.Len() < c.ch.Cap() || isClosed(id)
		}
		return c.ch.Len() > 0 || isClosed(id)
	}
	if isClosed(id) {
		return true
	}
	want := chSend
	if c.send {
		want = chRecv
	}
	for _, w := range waitList {
		if w.chID == id && w.chKind == want {
			return true
		}
	}
	return false
}

//go:norace
func selAnyReady(cs []SelCase) bool {
	for i := range cs {
		if cs[i].ready() {
			return true
		}
	}
	return false
}

// perform executes the (ready) clause for real.
//
//go:norace
func (c *SelCase) perform() {
	id := c.ch.Pointer()
	if c.ch.Cap() == 0 && !isClosed(id) {
		want := chSend
		if c.send {
			want = chRecv
		}
		if w := popWaiter(id, want); w != nil {
			rendezvous(w)
		}
	}
	if c.send {
		c.ch.Send(c.val)
		return
	}
	fireTimer(id)
	v, ok := c.ch.Recv()
	if c.dst.IsValid() {
		c.dst.Elem().Set(v)
	}
	if c.ok != nil {
		*c.ok = ok
	}
}

// Select chooses one ready clause (blocking in the model until one is ready unless hasDefault),
// performs it and returns its index, or -1 for the default clause. Several ready clauses are a
// choice point of the exploration (Go picks one pseudo-randomly).
//
//go:norace
func Select(hasDefault bool, cases ...SelCase) int {
	if !Active {
		// free-running: the real select
		rc := make([]reflect.SelectCase, 0, len(cases)+1)
		for _, c := range cases {
			if c.send {
				rc = append(rc, reflect.SelectCase{Dir: reflect.SelectSend, Chan: c.ch, Send: c.val})
			} else {
				rc = append(rc, reflect.SelectCase{Dir: reflect.SelectRecv, Chan: c.ch})
			}
		}
		if hasDefault {
			rc = append(rc, reflect.SelectCase{Dir: reflect.SelectDefault})
		}
		i, v, ok := reflect.Select(rc)
		if i == len(cases) {
			return -1
		}
		if !cases[i].send {
			if cases[i].dst.IsValid() {
				cases[i].dst.Elem().Set(v)
			}
			if cases[i].ok != nil {
				*cases[i].ok = ok
			}
		}
		return i
	}
	self := cur
	if hasDefault {
		schedule(self)
	} else {
		self.sel = cases
		schedule(self)
		self.sel = nil
	}
	var ready, timers []int
	for i := range cases {
		if cases[i].ready() {
			if _, tm := isTimer(cases[i].ch.Pointer()); tm && !cases[i].send {
				timers = append(timers, i)
			} else {
				ready = append(ready, i)
			}
		}
	}
	ready = append(ready, timers...)
	if len(ready) == 0 {
		return -1 // only reachable with a default clause
	}
	pick := 0
	if len(ready) > 1 {
		pick = choose(len(ready), false)
	}
	i := ready[pick]
	cases[i].perform()
	return i
}

// ---- timers: time may pass arbitrarily between two scheduling points, so a timer channel is
// ready whenever somebody looks at it. Which clause of a select fires (the timer or another ready
// clause) is a choice of the exploration; the default answer prefers the non-timer clauses.

var timerList []reflect.Value

//go:norace
func isTimer(id uintptr) (reflect.Value, bool) {
	for _, t := range timerList {
		if t.Pointer() == id {
			return t, true
		}
	}
	return reflect.Value{}, false
}

//go:norace
func fireTimer(id uintptr) {
	if t, ok := isTimer(id); ok && t.Len() == 0 {
		t.Send(reflect.ValueOf(time.Now()))
	}
}

// After replaces time.After in repository code.
//
//go:norace
func After(d time.Duration) <-chan time.Time {
	if !Active {
		return time.After(d)
	}
	ch := make(chan time.Time, 1)
	timerList = append(timerList, reflect.ValueOf(ch))
	return ch
}

// Sleep replaces time.Sleep: a scheduling point (the sleeping goroutine may be overtaken).
//
//go:norace
func Sleep(d time.Duration) {
	if !Active {
		time.Sleep(d)
		return
	}
	Point()
}
