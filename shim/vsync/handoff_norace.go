//go:build !race

package vsync

// RaceBuild is false: hand-offs use channels (fast; there is no detector to hide from).
const RaceBuild = false

type handle struct{ c chan struct{} }

func newHandle() handle { return handle{make(chan struct{}, 1)} }
func (h handle) close() {}
func (h handle) wake()  { h.c <- struct{}{} }
func (h handle) park()  { <-h.c }
