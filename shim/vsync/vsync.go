// Package vsync is the verification shim that the instrumenter substitutes for "sync" in the
// repository's non-test code (as the virtual package github.com/go-kid/ioc/util/vsync, added by
// a build overlay; nothing of it exists in /repo).
//
// It owns three sources of nondeterminism:
//   - goroutine scheduling: a cooperative scheduler runs exactly one goroutine at a time and asks
//     Chooser which enabled goroutine runs next at every synchronisation operation;
//   - iteration order of sync.Map.Range and of Go maps (MapKeys): canonical sorted order,
//     permuted by OrderHook;
//   - nothing else (the real primitives stay inside and are still executed, so the race detector
//     sees exactly the happens-before edges of the real program).
//
// Every function that touches scheduler state is //go:norace and the hand-off between goroutines
// uses raw pipe syscalls under -race (handoff_race.go), so the scheduler itself adds no
// happens-before edge that tsan could see.
package vsync

import (
	"fmt"
	"reflect"
	"sort"
	"sync"
)

type Locker = sync.Locker

type thread struct {
	id   int
	done bool
	h    handle
	wg   *sync.WaitGroup // endWG of the execution that spawned it
	// blocking model: at most one of these is set while the thread waits
	waitWG *WaitGroup
	waitMu *Mutex
	waitRW *RWMutex
	rwKind int // 1 = wants write lock, 2 = wants read lock
	waitOn *Once
	held   bool        // GoHeld: not runnable before Release
	cond   func() bool // WaitUntil: harness-level blocking condition (must be a //go:norace function)
	// channel operations (chan.go)
	chKind    int
	chID      uintptr
	chBuf     reflect.Value // buffered channel this goroutine wants to use
	chBlocked bool          // waiting for a counterpart on an unbuffered channel
	chGo      bool          // woken to perform chOp, not to run
	chOp      func()
	sel       []SelCase // blocked in a select without default
}

var (
	// Active is true between Begin and End.
	Active bool
	// Chooser picks among n alternatives at a scheduling point ('S'); preempt tells whether the
	// running goroutine is still enabled (alternative 0 is then "keep running it"). nil ⇒ 0.
	Chooser func(kind byte, n int, preempt bool) int
	// OrderHook receives the canonically sorted keys of an iteration and returns the order
	// (a permutation of 0..len-1) in which they are visited. nil ⇒ sorted order.
	OrderHook func(keys []string) []int

	// Script / Rec: scheduler-internal replay and recording (used instead of Chooser under -race,
	// where harness code must not run on arbitrary goroutines between scheduling points).
	Script []int
	Rec    []SchedPoint
	// KeyRank fixes the iteration order without a hook: keys are visited by ascending rank, then
	// by name (read-only during an execution).
	KeyRank map[string]int

	threads []*thread
	alive   int // threads that have not finished
	cur     *thread
	endWG   *sync.WaitGroup // of the current execution: goroutines leaked by a deadlocked one keep theirs

	// Deadlock is set when no goroutine is enabled while some are unfinished.
	Deadlock bool
	// Diverged is set when Script did not fit the execution (a scripted choice out of range).
	Diverged string
	// ChildPanics collects panics that escaped spawned goroutines (fatal for a real process).
	ChildPanics []string
	// Points counts scheduling points of the current execution, Spawned the goroutines started.
	Points  int
	Spawned int
	// Unfinished is the number of spawned goroutines that had not finished when End was called.
	Unfinished int
)

//go:norace
func newThread() *thread {
	t := &thread{id: len(threads), wg: endWG}
	t.h = newHandle()
	threads = append(threads, t)
	alive++
	return t
}

// Begin starts a controlled execution; the calling goroutine becomes thread 0.
//
//go:norace
func Begin() {
	for _, t := range threads {
		// a goroutine leaked by a deadlocked execution may be parked on its handle or about to
		// park: its handle stays open (descriptor numbers must not be reused under it)
		if t.done || t.id == 0 {
			t.h.close()
		}
	}
	threads, alive = nil, 0
	endWG = new(sync.WaitGroup)
	Rec = nil
	chanReset()
	Deadlock, ChildPanics, Points, Spawned, Unfinished, Diverged = false, nil, 0, 0, 0, ""
	cur = newThread()
	Active = true
}

// End lets every remaining goroutine run to completion (deterministically, lowest id first)
// and joins them through a real WaitGroup, which adds edges only after the last program event.
//
//go:norace
func End() {
	self := cur
	if self == nil || !Active {
		return
	}
	if self.id != 0 {
		panic("vsync: End called from a spawned goroutine")
	}
	first := true
	for {
		n := 0
		for _, t := range threads {
			if t != self && !t.done {
				n++
			}
		}
		if first {
			Unfinished, first = n, false
		}
		if n == 0 {
			break
		}
		if !yieldOthers(self) {
			Deadlock = true
			break
		}
	}
	Active = false
	if !Deadlock {
		endWG.Wait()
	}
}

//go:norace
func enabled(t *thread) bool {
	if t.done || t.held {
		return false
	}
	if t.waitWG != nil && t.waitWG.n != 0 {
		return false
	}
	if t.waitMu != nil && t.waitMu.held {
		return false
	}
	if t.waitRW != nil {
		if t.rwKind == 1 && (t.waitRW.w || t.waitRW.r > 0) {
			return false
		}
		if t.rwKind == 2 && t.waitRW.w {
			return false
		}
	}
	if t.waitOn != nil && t.waitOn.running {
		return false
	}
	if t.cond != nil && !t.cond() {
		return false
	}
	if t.chBlocked {
		return false
	}
	if t.sel != nil && !selAnyReady(t.sel) {
		return false
	}
	if t.chBuf.IsValid() {
		if t.chKind == chSend && t.chBuf.Len() >= t.chBuf.Cap() && !isClosed(t.chID) {
			return false
		}
		if t.chKind == chRecv && t.chBuf.Len() == 0 && !isClosed(t.chID) {
			return false
		}
	}
	return true
}

// WaitUntil blocks the calling goroutine (in the model) until cond holds. cond is evaluated by
// the scheduler on whatever goroutine is running: it must be a //go:norace function over state
// that only norace code touches.
//
//go:norace
func WaitUntil(cond func() bool) {
	if !Active {
		return
	}
	self := cur
	self.cond = cond
	schedule(self)
	self.cond = nil
}

//go:norace
func yieldOthers(self *thread) bool {
	for _, t := range threads {
		if t != self && enabled(t) {
			cur = t
			t.h.wake()
			self.h.park()
			self.afterPark()
			return true
		}
	}
	return false
}

//go:norace
func schedule(self *thread) {
	Points++
	if alive == 1 && !self.done && enabled(self) {
		return // only this goroutine exists: nothing to choose
	}
	var en []*thread
	selfEn := enabled(self)
	if selfEn {
		en = append(en, self)
	}
	for _, t := range threads {
		if t != self && enabled(t) {
			en = append(en, t)
		}
	}
	if len(en) == 0 {
		Deadlock = true
		if self.id != 0 {
			// wake the main goroutine so the harness can report; this goroutine stays parked
			// (or ends, if it had finished)
			cur = threads[0]
			threads[0].h.wake()
			if !self.done {
				self.h.park()
				self.afterPark()
			}
			return
		}
		panic(DeadlockPanic{})
	}
	c := 0
	if len(en) > 1 {
		c = choose(len(en), selfEn)
	}
	next := en[c]
	if next == self {
		return
	}
	cur = next
	next.h.wake()
	if !self.done {
		self.h.park()
		self.afterPark()
		if Deadlock && self.id == 0 {
			panic(DeadlockPanic{})
		}
	}
}

// SchedPoint is one recorded scheduling decision.
type SchedPoint struct {
	N       int
	Chosen  int
	Preempt bool // the running goroutine was still enabled (choosing another one is a preemption)
}

// ReplayDivergence is raised when Script does not fit the execution.
type ReplayDivergence struct{ Msg string }

// choose answers a choice point with n > 1 alternatives: through Chooser when the harness
// installed one, otherwise from Script, recording the decision.
//
//go:norace
func choose(n int, preempt bool) int {
	if Chooser != nil {
		c := Chooser('S', n, preempt)
		if c < 0 || c >= n {
			panic(fmt.Sprintf("vsync: chooser returned %d of %d", c, n))
		}
		return c
	}
	c := 0
	if i := len(Rec); i < len(Script) {
		c = Script[i]
		if c < 0 || c >= n {
			// not a panic: this may be a spawned goroutine; the explorer checks Diverged after End
			if Diverged == "" {
				Diverged = fmt.Sprintf("choice point %d: scripted choice %d of %d", i, c, n)
			}
			c = 0
		}
	}
	Rec = append(Rec, SchedPoint{n, c, preempt})
	return c
}

// DeadlockPanic is raised on the main goroutine when no goroutine can run.
type DeadlockPanic struct{}

func (DeadlockPanic) Error() string { return "vsync: deadlock (no enabled goroutine)" }

// Point is a scheduling point without a blocking condition.
//
//go:norace
func Point() {
	if Active {
		schedule(cur)
	}
}

// Go replaces a go statement.
//
//go:norace
func Go(f func()) {
	if !Active {
		go f()
		return
	}
	t := newThread()
	Spawned++
	endWG.Add(1)
	go t.run(f)
	schedule(cur)
}

// GoHeld spawns a goroutine that cannot run before Release is called, without a scheduling
// point at the spawn (harness use: start all threads of a test program at once).
//
//go:norace
func GoHeld(f func()) {
	if !Active {
		panic("vsync: GoHeld outside a controlled execution")
	}
	t := newThread()
	t.held = true
	Spawned++
	endWG.Add(1)
	go t.run(f)
}

// Release makes every held goroutine runnable (one scheduling point).
//
//go:norace
func Release() {
	for _, t := range threads {
		t.held = false
	}
	Point()
}

//go:norace
func (t *thread) run(f func()) {
	wg := t.wg
	t.h.park()
	t.afterPark()
	t.call(f)
	wg.Done()
	t.done = true
	alive--
	schedule(t)
}

//go:norace
func (t *thread) call(f func()) {
	defer func() {
		if r := recover(); r != nil {
			ChildPanics = append(ChildPanics, fmt.Sprint(r))
		}
	}()
	f()
}

// ---- WaitGroup

type WaitGroup struct {
	wg sync.WaitGroup
	n  int
}

//go:norace
func (w *WaitGroup) Add(d int) {
	Point()
	w.n += d
	w.wg.Add(d)
}

//go:norace
func (w *WaitGroup) Done() {
	Point()
	w.n--
	w.wg.Done()
}

//go:norace
func (w *WaitGroup) Wait() {
	if Active {
		self := cur
		self.waitWG = w
		schedule(self)
		self.waitWG = nil
	}
	w.wg.Wait()
}

// ---- Mutex

type Mutex struct {
	mu   sync.Mutex
	held bool
}

//go:norace
func (m *Mutex) Lock() {
	if Active {
		self := cur
		self.waitMu = m
		schedule(self)
		self.waitMu = nil
		m.held = true
	}
	m.mu.Lock()
}

//go:norace
func (m *Mutex) TryLock() bool {
	Point()
	ok := m.mu.TryLock()
	if ok && Active {
		m.held = true
	}
	return ok
}

//go:norace
func (m *Mutex) Unlock() {
	Point()
	m.held = false
	m.mu.Unlock()
}

// ---- RWMutex

type RWMutex struct {
	mu sync.RWMutex
	w  bool
	r  int
}

//go:norace
func (m *RWMutex) Lock() {
	if Active {
		self := cur
		self.waitRW, self.rwKind = m, 1
		schedule(self)
		self.waitRW, self.rwKind = nil, 0
		m.w = true
	}
	m.mu.Lock()
}

//go:norace
func (m *RWMutex) Unlock() {
	Point()
	m.w = false
	m.mu.Unlock()
}

//go:norace
func (m *RWMutex) RLock() {
	if Active {
		self := cur
		self.waitRW, self.rwKind = m, 2
		schedule(self)
		self.waitRW, self.rwKind = nil, 0
		m.r++
	}
	m.mu.RLock()
}

//go:norace
func (m *RWMutex) RUnlock() {
	Point()
	if m.r > 0 {
		m.r--
	}
	m.mu.RUnlock()
}

func (m *RWMutex) RLocker() Locker { return (*rlocker)(m) }

type rlocker RWMutex

func (r *rlocker) Lock()   { (*RWMutex)(r).RLock() }
func (r *rlocker) Unlock() { (*RWMutex)(r).RUnlock() }

// ---- Once

type Once struct {
	o       sync.Once
	running bool
}

//go:norace
func (o *Once) Do(f func()) {
	if Active {
		self := cur
		self.waitOn = o
		schedule(self)
		self.waitOn = nil
	}
	o.o.Do(func() { o.enter(); defer o.leave(); f() })
}

//go:norace
func (o *Once) enter() { o.running = true }

//go:norace
func (o *Once) leave() { o.running = false }

// ---- Map: every operation is one atomic step (trusted base: Go's sync.Map is linearizable per
// operation). Range visits a snapshot in the harness-owned order.

type Map struct{ m sync.Map }

//go:norace
func (m *Map) Load(k any) (any, bool) { Point(); return m.m.Load(k) }

//go:norace
func (m *Map) Store(k, v any) { Point(); m.m.Store(k, v) }

//go:norace
func (m *Map) LoadOrStore(k, v any) (any, bool) { Point(); return m.m.LoadOrStore(k, v) }

//go:norace
func (m *Map) LoadAndDelete(k any) (any, bool) { Point(); return m.m.LoadAndDelete(k) }

//go:norace
func (m *Map) Delete(k any) { Point(); m.m.Delete(k) }

//go:norace
func (m *Map) Swap(k, v any) (any, bool) { Point(); return m.m.Swap(k, v) }

//go:norace
func (m *Map) CompareAndSwap(k, o, n any) bool { Point(); return m.m.CompareAndSwap(k, o, n) }

//go:norace
func (m *Map) CompareAndDelete(k, o any) bool { Point(); return m.m.CompareAndDelete(k, o) }

//go:norace
func (m *Map) Clear() { Point(); m.m.Clear() }

type kv struct {
	k, v any
	s    string
}

//go:norace
func (m *Map) Range(f func(k, v any) bool) {
	Point()
	var es []kv
	m.m.Range(func(k, v any) bool {
		es = append(es, kv{k, v, fmt.Sprint(k)})
		return true
	})
	sort.SliceStable(es, func(i, j int) bool { return es[i].s < es[j].s })
	for _, i := range order(len(es), func(i int) string { return es[i].s }) {
		if !f(es[i].k, es[i].v) {
			return
		}
	}
}

//go:norace
func order(n int, key func(int) string) []int {
	idx := make([]int, n)
	for i := range idx {
		idx[i] = i
	}
	if KeyRank != nil && n >= 2 {
		sort.SliceStable(idx, func(a, b int) bool {
			ra, oka := KeyRank[key(idx[a])]
			rb, okb := KeyRank[key(idx[b])]
			if !oka {
				ra = 1 << 30
			}
			if !okb {
				rb = 1 << 30
			}
			return ra < rb
		})
		return idx
	}
	if OrderHook == nil || n < 2 {
		return idx
	}
	keys := make([]string, n)
	for i := range keys {
		keys[i] = key(i)
	}
	p := OrderHook(keys)
	if len(p) != n {
		panic("vsync: OrderHook returned a wrong-sized permutation")
	}
	seen := make([]bool, n)
	for _, x := range p {
		if x < 0 || x >= n || seen[x] {
			panic("vsync: OrderHook did not return a permutation")
		}
		seen[x] = true
	}
	return p
}

// MapKeys returns the keys of a Go map in the harness-owned order (the instrumenter rewrites
// every range over a map in repository code to range over MapKeys).
//
//go:norace
func MapKeys[M ~map[K]V, K comparable, V any](m M) []K {
	keys := make([]K, 0, len(m))
	strs := make([]string, 0, len(m))
	for k := range m {
		keys = append(keys, k)
	}
	sort.SliceStable(keys, func(i, j int) bool { return fmt.Sprint(keys[i]) < fmt.Sprint(keys[j]) })
	for _, k := range keys {
		strs = append(strs, fmt.Sprint(k))
	}
	out := make([]K, 0, len(keys))
	for _, i := range order(len(keys), func(i int) string { return strs[i] }) {
		out = append(out, keys[i])
	}
	return out
}
