//go:build verif

// Added to package syslog by the build overlay (never committed to /repo): lets the harness put
// the package's process-global state (default logger, per-prefix logger cache) back to its
// initial state, so that every explored execution starts cold and lazily built logger state is
// rebuilt - and raced on, if it can be - in each of them, not only in the first one of a process.
package syslog

import "github.com/go-kid/ioc/util/sync2"

func ResetForVerif(lv Lv) {
	_logger = New(lv)
	prefCache = sync2.New[any, Logger]()
}
