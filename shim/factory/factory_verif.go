//go:build verif

// Added to package container/factory by the build overlay (never committed to /repo): lets the
// harness wrap the two private registries of the real default factory.
package factory

import "github.com/go-kid/ioc/container"

func NewWithRegistries(wrapDR func(container.DefinitionRegistry) container.DefinitionRegistry, wrapSCR func(container.SingletonComponentRegistry) container.SingletonComponentRegistry) container.Factory {
	f := Default().(*defaultFactory)
	if wrapDR != nil {
		f.definitionRegistry = wrapDR(f.definitionRegistry)
	}
	if wrapSCR != nil {
		f.singletonComponentRegistry = wrapSCR(f.singletonComponentRegistry)
	}
	return f
}
