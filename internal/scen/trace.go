package scen

import (
	"fmt"

	cd "github.com/go-kid/ioc/component_definition"
	"github.com/go-kid/ioc/container"
)

// BudgetExceeded is the sentinel panic raised by the tracing registry when an execution exceeds
// the nesting or call budget computed from the program (termination oracle without a clock).
type BudgetExceeded struct{ Msg string }

// TraceSCR wraps the real singleton-component registry of the real factory: it counts calls,
// enforces the termination budgets and monitors the cache protocol automaton (C04) on every call.
type TraceSCR struct {
	inner     container.SingletonComponentRegistry
	MaxDepth  int
	MaxCalls  int
	Calls     int
	Depth     int
	PeakDepth int
	st        map[string]*nameState
	Viol      []string // protocol violations observed (C04 layer 2)
}

type nameState struct {
	creating    int
	early       *cd.Meta
	factoryRuns int
	published   *cd.Meta
	failed      bool
	attempts    int
	failures    int // creation attempts that ended with an error
}

func NewTraceSCR(maxDepth, maxCalls int) *TraceSCR {
	return &TraceSCR{MaxDepth: maxDepth, MaxCalls: maxCalls, st: map[string]*nameState{}}
}

func (t *TraceSCR) Wrap(inner container.SingletonComponentRegistry) container.SingletonComponentRegistry {
	t.inner = inner
	return t
}

func (t *TraceSCR) s(name string) *nameState {
	s := t.st[name]
	if s == nil {
		s = &nameState{}
		t.st[name] = s
	}
	return s
}

func (t *TraceSCR) call() {
	t.Calls++
	if t.Calls > t.MaxCalls {
		panic(BudgetExceeded{fmt.Sprintf("more than %d registry calls", t.MaxCalls)})
	}
}

func (t *TraceSCR) bad(f string, a ...any) {
	if len(t.Viol) < 8 {
		t.Viol = append(t.Viol, fmt.Sprintf(f, a...))
	}
}

func (t *TraceSCR) AddSingleton(name string, meta *cd.Meta) {
	t.call()
	t.inner.AddSingleton(name, meta)
	s := t.s(name)
	s.published = meta
}

func (t *TraceSCR) AddSingletonFactory(name string, method container.SingletonFactory) {
	t.call()
	s := t.s(name)
	attempt := s.attempts
	t.inner.AddSingletonFactory(name, container.FuncSingletonFactory(func() (*cd.Meta, error) {
		m, err := method.GetComponent()
		if s.attempts == attempt && m != nil && err == nil {
			// only successful runs count: a factory that failed produced no early reference
			s.factoryRuns++
			if s.factoryRuns > 1 {
				t.bad("early-reference factory of '%s' produced %d early references in one creation attempt", name, s.factoryRuns)
			}
		}
		return m, err
	}))
}

func (t *TraceSCR) GetSingleton(name string, allowEarlyReference bool) (*cd.Meta, error) {
	t.call()
	m, err := t.inner.GetSingleton(name, allowEarlyReference)
	s := t.s(name)
	switch {
	case s.published != nil:
		if m != s.published || err != nil {
			t.bad("lookup of published '%s' returned %p (err=%v), published is %p", name, m, err, s.published)
		}
	case s.creating > 0:
		if m != nil {
			if s.early == nil {
				s.early = m
			} else if s.early != m {
				t.bad("two different early references observed for '%s' during one creation", name)
			}
		} else if s.early != nil && err == nil {
			t.bad("a lookup of '%s' during its creation (early references allowed: %v) returned nothing although an early reference had already been handed out", name, allowEarlyReference)
		}
	default:
		if m != nil && err == nil {
			if s.failed {
				t.bad("lookup of '%s' after its creation failed returned an instance with nil error", name)
			} else {
				t.bad("lookup of '%s' returned an instance although it was never created", name)
			}
		}
	}
	return m, err
}

func (t *TraceSCR) RemoveSingleton(name string) {
	t.call()
	t.inner.RemoveSingleton(name)
	delete(t.st, name)
}

func (t *TraceSCR) GetSingletonOrCreateByFactory(name string, f container.SingletonFactory) (*cd.Meta, error) {
	t.call()
	s := t.s(name)
	if s.published != nil {
		ran := false
		m, err := t.inner.GetSingletonOrCreateByFactory(name, container.FuncSingletonFactory(func() (*cd.Meta, error) {
			ran = true
			return f.GetComponent()
		}))
		if ran {
			t.bad("creation factory of already published '%s' was run again", name)
		}
		if m != s.published {
			t.bad("get-or-create of published '%s' returned a different instance", name)
		}
		return m, err
	}
	t.Depth++
	if t.Depth > t.PeakDepth {
		t.PeakDepth = t.Depth
	}
	if t.Depth > t.MaxDepth {
		panic(BudgetExceeded{fmt.Sprintf("creation nesting deeper than %d", t.MaxDepth)})
	}
	s.creating++
	s.attempts++
	s.failed = false
	if s.creating == 1 {
		s.early, s.factoryRuns = nil, 0
	} else {
		t.bad("creation of '%s' was started again while its creation is still running (nothing of it was visible to the request that came back)", name)
	}
	m, err := t.inner.GetSingletonOrCreateByFactory(name, f)
	t.Depth--
	s.creating--
	if err != nil || m == nil {
		s.failed = true
		s.failures++
		s.early = nil
		if s.creating == 0 && t.inner.IsSingletonCurrentlyInCreation(name) {
			t.bad("'%s' is still reported as in creation after its creation failed", name)
		}
		return m, err
	}
	s.published = m
	if t.inner.IsSingletonCurrentlyInCreation(name) {
		t.bad("'%s' is still reported as in creation after it was published", name)
	}
	return m, err
}

func (t *TraceSCR) IsSingletonCurrentlyInCreation(name string) bool {
	t.call()
	return t.inner.IsSingletonCurrentlyInCreation(name)
}

// Published tells whether some creation attempt of name has succeeded.
// Failures is the number of creation attempts of name that ended with an error.
func (t *TraceSCR) Failures(name string) int {
	if s := t.st[name]; s != nil {
		return s.failures
	}
	return 0
}

func (t *TraceSCR) Published(name string) bool {
	s := t.st[name]
	return s != nil && s.published != nil
}

// Canon renders the abstract protocol state (sorted per-name tuples), probing the real registry
// for the in-creation mark; used to count distinct states of the explicit-state exploration.
func (t *TraceSCR) Canon(names []string) string {
	out := ""
	for _, n := range names {
		s := t.s(n)
		out += fmt.Sprintf("%s:%v,%d,%v,%v,%v|", n, s.published != nil, s.creating, s.early != nil, s.failed, t.inner.IsSingletonCurrentlyInCreation(n))
	}
	return out
}
