package scen

import (
	"fmt"
	"reflect"
)

// Typed provider universe for the resolution properties (C06, C07, C08, C10).

type I1 interface{ M1() }
type I2 interface{ M2() }
type I12 interface {
	M1()
	M2()
}

// Nm carries the identity and the (optional) custom name of a provider instance.
type Nm struct{ Id, Name string }

func (n *Nm) Naming() string { return n.Name }
func (n *Nm) Ident() string  { return n.Id }

type Identified interface{ Ident() string }

type TA struct{ Nm }

func (*TA) M1()   {}
func (*TA) Comp() {}
func (*TA) Élan() {} // an exported method whose first letter is not ASCII

type TB struct{ Nm }

func (*TB) M1()          {}
func (*TB) M2()          {}
func (*TB) Comp() string { return "A" }

type TC struct{ Nm }

func (*TC) M2()          {}
func (*TC) Comp() string { return "B" }

type TD struct{ Nm }

// TA2 has the same underlying struct as TA but is a different type.
type TA2 TA

func (*TA2) M1()              {}
func (t *TA2) Naming() string { return t.Name }
func (t *TA2) Ident() string  { return t.Id }

// TL is a lazily initialised provider of I1.
type TL struct{ Nm }

func (*TL) M1()       {}
func (*TL) LazyInit() {}
func (*TL) Élan()     {}

// Providers whose pointee is a named non-struct type with methods (a counter over int64, a
// registry over a map): components too.
type TNum int64

func (*TNum) M1()             {}
func (n *TNum) Ident() string { return fmt.Sprintf("TNum#%d", int64(*n)) }

type TMapT map[string]int

func (*TMapT) M1()             {}
func (m *TMapT) Ident() string { return fmt.Sprintf("TMapT#%d", (*m)["id"]) }

var TypedNames = []string{"TA", "TB", "TC", "TD", "TA2", "TL"}

// Implements tells which universe types implement which interface.
var Implements = map[string]map[string]bool{
	"I1":  {"TA": true, "TB": true, "TA2": true, "TL": true},
	"I2":  {"TB": true, "TC": true},
	"I12": {"TB": true},
}

// CompNoResult: types whose Comp() has no result; CompResult: result of Comp() string.
var CompNoResult = map[string]bool{"TA": true}

// HasElan: types with the method Élan().
var HasElan = map[string]bool{"TA": true, "TL": true}
var CompResult = map[string]string{"TB": "A", "TC": "B"}

// Inst describes one provider instance (pure data).
type Inst struct {
	Typ  string `json:"typ"`
	Name string `json:"name,omitempty"` // "" = default (package/type) name
}

// BuildInst creates the provider object; its identity is "<typ>#<i>".
func BuildInst(in Inst, i int) any {
	n := Nm{Id: fmt.Sprintf("%s#%d", in.Typ, i), Name: in.Name}
	switch in.Typ {
	case "TA":
		return &TA{n}
	case "TB":
		return &TB{n}
	case "TC":
		return &TC{n}
	case "TD":
		return &TD{n}
	case "TA2":
		return &TA2{Nm: n}
	case "TL":
		return &TL{n}
	}
	panic("unknown universe type " + in.Typ)
}

// DefaultName is the container's default component name of a universe type.
func DefaultName(typ string) string { return "verif/internal/scen/" + typ }

// RegName is the name under which an instance is registered.
func (in Inst) RegName() string {
	if in.Name != "" {
		return in.Name
	}
	return DefaultName(in.Typ)
}

// IdOf returns the identity of a provider value, "-" for nil, "?" for foreign objects.
func IdOf(v any) string {
	if v == nil {
		return "-"
	}
	rv := reflect.ValueOf(v)
	if (rv.Kind() == reflect.Pointer || rv.Kind() == reflect.Interface) && rv.IsNil() {
		return "-"
	}
	if x, ok := v.(Identified); ok {
		return x.Ident()
	}
	if _, ok := v.(*TS1); ok {
		return "TS1"
	}
	return "?"
}

// IdsOf returns the identities of the elements of a slice value.
func IdsOf(v any) []string {
	rv := reflect.ValueOf(v)
	var out []string
	for i := 0; i < rv.Len(); i++ {
		out = append(out, IdOf(rv.Index(i).Interface()))
	}
	return out
}

// ---- qualifier / primary universe (C08, C10): four provider types of one interface IQ that differ
// only in the marker interfaces the container tests by type assertion.

type IQ interface{ QID() string }

type QBase struct{ Id, Name string }

func (b *QBase) QID() string    { return b.Id }
func (b *QBase) Ident() string  { return b.Id }
func (b *QBase) Naming() string { return b.Name }

type QQual struct{ Q string }

func (q *QQual) Qualifier() string { return q.Q }

type PlainNQ struct{ QBase }
type PlainQ struct {
	QBase
	QQual
}
type PrimNQ struct{ QBase }

func (*PrimNQ) Primary() {}

type PrimQ struct {
	QBase
	QQual
}

func (*PrimQ) Primary() {}

// Missing is an interface nobody implements (optional field without candidates).
type Missing interface{ Nope() }

// QProv describes one provider of the qualifier universe.
type QProv struct {
	Prim  bool   `json:"primary,omitempty"`
	Named bool   `json:"named,omitempty"`
	Q     string `json:"q"` // "-" = Qualifier() not declared
	// First: the custom name sorts before every default name ("a-x<i>" instead of "x<i>")
	First bool `json:"name_sorts_first,omitempty"`
}

func (p QProv) String() string {
	s := "p"
	if p.Prim {
		s = "P"
	}
	if p.Named {
		s += "n"
	} else {
		s += "d"
	}
	return s + "[" + p.Q + "]"
}

// TypeKey identifies the Go type a QProv is built with (one default name per type).
func (p QProv) TypeKey() string {
	switch {
	case !p.Prim && p.Q == "-":
		return "PlainNQ"
	case !p.Prim:
		return "PlainQ"
	case p.Q == "-":
		return "PrimNQ"
	}
	return "PrimQ"
}

// RegName is the name the provider is registered under when it is the i-th of its population.
func (p QProv) RegName(i int) string {
	if p.Named && p.First {
		return fmt.Sprintf("a-x%d", i)
	}
	if p.Named {
		return fmt.Sprintf("x%d", i)
	}
	return DefaultName(p.TypeKey())
}

// BuildQ creates the provider; its identity is "x<i>".
func BuildQ(p QProv, i int) any {
	id := fmt.Sprintf("x%d", i)
	b := QBase{Id: id}
	if p.Named {
		b.Name = id
		if p.First {
			b.Name = "a-" + id
		}
	}
	switch p.TypeKey() {
	case "PlainNQ":
		return &PlainNQ{b}
	case "PlainQ":
		return &PlainQ{b, QQual{p.Q}}
	case "PrimNQ":
		return &PrimNQ{b}
	}
	return &PrimQ{b, QQual{p.Q}}
}

// Sealed interface (it has an unexported method): implementers differ in how many exported
// methods they have.
type IS interface {
	M1()
	sealed()
}

// TS1 has a single exported method (fewer than the interface has methods in total).
type TS1 struct{ X int }

func (*TS1) M1()     {}
func (*TS1) sealed() {}

type TS2 struct{ Nm }

func (*TS2) M1()     {}
func (*TS2) sealed() {}
func (*TS2) Extra1() {}
func (*TS2) Extra2() {}
