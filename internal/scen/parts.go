package scen

import (
	"github.com/go-kid/ioc/app"
	cd "github.com/go-kid/ioc/component_definition"
	"github.com/go-kid/ioc/container/processors"
)

// Participants in the three ordering classes (the container tests Priority / Ordered by type
// assertion, so each class needs its own Go type) for the three sequenced roles.

type Part struct {
	Nm   string
	O    int
	RT   *RT
	Fail bool
	// Supply (post-processors): the name of a component for which this participant answers the
	// component itself from before-instantiation (the container short-cuts its creation and runs
	// the after-initialization callbacks of the whole chain over it)
	Supply string
}

func (p *Part) Naming() string { return p.Nm }
func (p *Part) run(ev string) error {
	p.RT.Event(ev + ":" + p.Nm)
	if p.Fail {
		return p.RT.MkErr(ev + ":" + p.Nm)
	}
	return nil
}

// runners
type RunP struct{ Part }

func (r *RunP) Priority()  {}
func (r *RunP) Order() int { return r.O }
func (r *RunP) Run() error { return r.run("run") }

type RunO struct{ Part }

func (r *RunO) Order() int { return r.O }
func (r *RunO) Run() error { return r.run("run") }

type RunN struct{ Part }

func (r *RunN) Run() error { return r.run("run") }

// runners that hold the application itself (they sit on a cycle with the App's own list of runners)
type RunPA struct {
	RunP
	App *app.App `wire:""`
}
type RunOA struct {
	RunO
	App *app.App `wire:""`
}
type RunNA struct {
	RunN
	App *app.App `wire:""`
}

// runners whose Order is only known after their own initialisation (it reads state the container
// provides): Order() answers 0 before Init ran
type RunPI struct {
	Part
	ord int
}

func (r *RunPI) Priority()   {}
func (r *RunPI) Order() int  { return r.ord }
func (r *RunPI) Init() error { r.ord = r.O; return nil }
func (r *RunPI) Run() error  { return r.run("run") }

type RunOI struct {
	Part
	ord int
}

func (r *RunOI) Order() int  { return r.ord }
func (r *RunOI) Init() error { r.ord = r.O; return nil }
func (r *RunOI) Run() error  { return r.run("run") }

// lazy runners
type RunPZ struct{ RunP }

func (*RunPZ) LazyInit() {}

type RunOZ struct{ RunO }

func (*RunOZ) LazyInit() {}

type RunNZ struct{ RunN }

func (*RunNZ) LazyInit() {}

// loaders
type LoadP struct {
	Part
	Doc string
}

func (l *LoadP) Priority()  {}
func (l *LoadP) Order() int { return l.O }
func (l *LoadP) LoadConfig() ([]byte, error) {
	return []byte(l.Doc), l.run("load")
}

type LoadO struct {
	Part
	Doc string
}

func (l *LoadO) Order() int { return l.O }
func (l *LoadO) LoadConfig() ([]byte, error) {
	return []byte(l.Doc), l.run("load")
}

type LoadN struct {
	Part
	Doc string
}

func (l *LoadN) LoadConfig() ([]byte, error) {
	return []byte(l.Doc), l.run("load")
}

// post-processors (observe the before/after-initialization of graph nodes)
type procBase struct {
	processors.DefaultComponentPostProcessor
	Part
}

// the instantiation-aware and early-reference callbacks are sequenced by the same contract
func (p *procBase) PostProcessBeforeInstantiation(m *cd.Meta, name string) (any, error) {
	if NodeOf(m.Raw) != nil {
		p.RT.Event("binst:" + p.Nm + ":" + name)
	}
	if p.Supply != "" && name == p.Supply {
		return m.Raw, nil
	}
	return nil, nil
}

func (p *procBase) PostProcessAfterInstantiation(c any, name string) (bool, error) {
	if NodeOf(c) != nil {
		p.RT.Event("ainst:" + p.Nm + ":" + name)
		return true, nil
	}
	return false, nil
}

func (p *procBase) PostProcessProperties(props []*cd.Property, c any, name string) ([]*cd.Property, error) {
	if NodeOf(c) != nil {
		p.RT.Event("props:" + p.Nm + ":" + name)
	}
	return nil, nil
}

func (p *procBase) GetEarlyBeanReference(c any, name string) (any, error) {
	if NodeOf(c) != nil {
		p.RT.Event("early:" + p.Nm + ":" + name)
	}
	return c, nil
}

func (p *procBase) PostProcessBeforeInitialization(c any, name string) (any, error) {
	if n := NodeOf(c); n != nil {
		p.RT.Event("before:" + p.Nm + ":" + name)
	}
	return c, nil
}

func (p *procBase) PostProcessAfterInitialization(c any, name string) (any, error) {
	if n := NodeOf(c); n != nil {
		p.RT.Event("after:" + p.Nm + ":" + name)
	}
	return c, nil
}

type ProcP struct{ procBase }

func (p *ProcP) Priority()  {}
func (p *ProcP) Order() int { return p.O }

type ProcO struct{ procBase }

func (p *ProcO) Order() int { return p.O }

type ProcN struct{ procBase }

// lazily initialised processors (the container takes them as registered instead of creating
// them through the factory)
type ProcPZ struct{ ProcP }

func (*ProcPZ) LazyInit() {}

type ProcOZ struct{ ProcO }

func (*ProcOZ) LazyInit() {}

type ProcNZ struct{ ProcN }

func (*ProcNZ) LazyInit() {}

// participants that carry the priority marker but have no Order(): they are not "ordered" at all
// and belong with the unordered ones
type RunM struct{ Part }

func (r *RunM) Priority()  {}
func (r *RunM) Run() error { return r.run("run") }

type LoadM struct {
	Part
	Doc string
}

func (l *LoadM) Priority() {}
func (l *LoadM) LoadConfig() ([]byte, error) {
	return []byte(l.Doc), l.run("load")
}

type ProcM struct{ procBase }

func (p *ProcM) Priority() {}

type ElemM struct{ Part }

func (e *ElemM) Priority() {}

// Plain sortable elements for the direct check of the sorting helper.
type ElemP struct{ Part }

func (e *ElemP) Priority()  {}
func (e *ElemP) Order() int { return e.O }

type ElemO struct{ Part }

func (e *ElemO) Order() int { return e.O }

type ElemN struct{ Part }

// Zero-size components: values of field-less struct types all live at one address
// (runtime.zerobase), yet they are distinct components. Being stateless they log to ZLog.
var ZLog []string

type IZ interface{ MZ() string }

type Z1 struct{}

func (*Z1) MZ() string { return "Z1" }

//go:norace
func (*Z1) Run() error { ZLog = append(ZLog, "run:Z1"); return nil }

//go:norace
func (*Z1) Close() error { ZLog = append(ZLog, "close:Z1"); return nil }

type Z2 struct{}

func (*Z2) MZ() string { return "Z2" }

//go:norace
func (*Z2) Run() error { ZLog = append(ZLog, "run:Z2"); return nil }

//go:norace
func (*Z2) Close() error { ZLog = append(ZLog, "close:Z2"); return nil }

type Z3 struct{}

func (*Z3) MZ() string { return "Z3" }

//go:norace
func (*Z3) Run() error { ZLog = append(ZLog, "run:Z3"); return nil }

//go:norace
func (*Z3) Close() error { ZLog = append(ZLog, "close:Z3"); return nil }

// Bystander processors: user instantiation-aware processors that only embed the library's
// default (which answers "do not populate" for itself) and sort ahead of the built-in
// property processors. They must not affect anybody else's work.
type BystanderO struct {
	processors.DefaultInstantiationAwareComponentPostProcessor
}

func (*BystanderO) Naming() string { return "zz-bystander-o" }
func (*BystanderO) Order() int     { return 1 }

type BystanderP struct {
	processors.DefaultInstantiationAwareComponentPostProcessor
}

func (*BystanderP) Naming() string { return "zz-bystander-p" }
func (*BystanderP) Priority()      {}
func (*BystanderP) Order() int     { return 1 }
