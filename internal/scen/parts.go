package scen

import (
	"github.com/go-kid/ioc/container/processors"
)

// Participants in the three ordering classes (the container tests Priority / Ordered by type
// assertion, so each class needs its own Go type) for the three sequenced roles.

type Part struct {
	Nm   string
	O    int
	RT   *RT
	Fail bool
}

func (p *Part) Naming() string { return p.Nm }
func (p *Part) run(ev string) error {
	p.RT.Event(ev + ":" + p.Nm)
	if p.Fail {
		return ErrInjected{ev + ":" + p.Nm}
	}
	return nil
}

// runners
type RunP struct{ Part }

func (r *RunP) Priority()  {}
func (r *RunP) Order() int { return r.O }
func (r *RunP) Run() error { return r.run("run") }

type RunO struct{ Part }

func (r *RunO) Order() int { return r.O }
func (r *RunO) Run() error { return r.run("run") }

type RunN struct{ Part }

func (r *RunN) Run() error { return r.run("run") }

// lazy runners
type RunPZ struct{ RunP }

func (*RunPZ) LazyInit() {}

type RunOZ struct{ RunO }

func (*RunOZ) LazyInit() {}

type RunNZ struct{ RunN }

func (*RunNZ) LazyInit() {}

// loaders
type LoadP struct {
	Part
	Doc string
}

func (l *LoadP) Priority()  {}
func (l *LoadP) Order() int { return l.O }
func (l *LoadP) LoadConfig() ([]byte, error) {
	return []byte(l.Doc), l.run("load")
}

type LoadO struct {
	Part
	Doc string
}

func (l *LoadO) Order() int { return l.O }
func (l *LoadO) LoadConfig() ([]byte, error) {
	return []byte(l.Doc), l.run("load")
}

type LoadN struct {
	Part
	Doc string
}

func (l *LoadN) LoadConfig() ([]byte, error) {
	return []byte(l.Doc), l.run("load")
}

// post-processors (observe the before/after-initialization of graph nodes)
type procBase struct {
	processors.DefaultComponentPostProcessor
	Part
}

func (p *procBase) PostProcessBeforeInitialization(c any, name string) (any, error) {
	if n := NodeOf(c); n != nil {
		p.RT.Event("before:" + p.Nm + ":" + name)
	}
	return c, nil
}

func (p *procBase) PostProcessAfterInitialization(c any, name string) (any, error) {
	if n := NodeOf(c); n != nil {
		p.RT.Event("after:" + p.Nm + ":" + name)
	}
	return c, nil
}

type ProcP struct{ procBase }

func (p *ProcP) Priority()  {}
func (p *ProcP) Order() int { return p.O }

type ProcO struct{ procBase }

func (p *ProcO) Order() int { return p.O }

type ProcN struct{ procBase }

// Plain sortable elements for the direct check of the sorting helper.
type ElemP struct{ Part }

func (e *ElemP) Priority()  {}
func (e *ElemP) Order() int { return e.O }

type ElemO struct{ Part }

func (e *ElemO) Order() int { return e.O }

type ElemN struct{ Part }
