package scen

import (
	"github.com/go-kid/ioc/app"
	"github.com/go-kid/ioc/container/factory"
	"github.com/go-kid/ioc/util/vsync"

	"verif/internal/core"
	"verif/internal/envx"
)

// StartObs is the outcome of one real start.
type StartObs struct {
	RT          *RT
	App         *app.App
	Err         error
	Panic       string
	Abort       string
	Trace       *TraceSCR
	ChildPanics []string
	Dead        bool
}

func (o *StartObs) OK() bool { return o.Err == nil && o.Panic == "" && o.Abort == "" }

// StartSpec describes one start for Start.
type StartSpec struct {
	Ch       *envx.Chooser
	Comps    []any
	Opts     []app.SettingOption
	User     map[string]bool // names whose iteration order the harness permutes
	Base     []string
	Mode     int
	Faults   bool
	MaxDepth int
	MaxCalls int
	After    func(o *StartObs) // runs inside the controlled execution after Run returned
}

// Start runs one real app.NewApp().Run under the harness-owned environment.
func Start(sp StartSpec) *StartObs {
	core.Tick()
	rt := &RT{Ch: sp.Ch, Faults: sp.Faults, Mode: sp.Mode, Base: sp.Base}
	if sp.User != nil {
		rt.User = userPred(sp.User)
	}
	o := &StartObs{RT: rt}
	if sp.MaxDepth == 0 {
		sp.MaxDepth = len(sp.Comps) + 16
	}
	if sp.MaxCalls == 0 {
		sp.MaxCalls = 2000*len(sp.Comps) + 20000
	}
	o.Trace = NewTraceSCR(sp.MaxDepth, sp.MaxCalls)
	s := app.NewApp()
	o.App = s
	rt.Install()
	vsync.Begin()
	o.Panic = Protect(func() {
		defer func() {
			if r := recover(); r != nil {
				if b, ok := r.(BudgetExceeded); ok {
					o.Abort = b.Msg
					return
				}
				if _, ok := r.(vsync.DeadlockPanic); ok {
					o.Dead, o.Abort = true, "deadlock"
					return
				}
				panic(r)
			}
		}()
		opts := append(append([]app.SettingOption{}, sp.Opts...), app.SetFactory(factory.NewWithRegistries(nil, o.Trace.Wrap)), app.SetComponents(sp.Comps...))
		o.Err = s.Run(opts...)
	})
	if sp.After != nil && o.Panic == "" && o.Abort == "" {
		ab, pn := Guard(func() { sp.After(o) })
		if ab != "" {
			o.Abort = "after start: " + ab
		}
		if pn != "" {
			o.Panic = "after start: " + pn
		}
	}
	vsync.End()
	o.ChildPanics = append([]string{}, vsync.ChildPanics...)
	if vsync.Deadlock {
		o.Dead = true
	}
	Uninstall()
	return o
}
