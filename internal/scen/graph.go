package scen

import (
	"fmt"
	"sort"
	"strings"
	"time"

	"github.com/go-kid/ioc/app"
	cd "github.com/go-kid/ioc/component_definition"
	"github.com/go-kid/ioc/configure/loader"
	"github.com/go-kid/ioc/container"
	"github.com/go-kid/ioc/container/factory"
	"github.com/go-kid/ioc/container/processors"
	"github.com/go-kid/ioc/util/vsync"

	"verif/internal/core"
	"verif/internal/envx"
)

// Iface is the interface every graph node (and every wrapper of one) implements.
type Iface interface{ ID() string }

// N is the universal graph node. Its injection tags are supplied per instance by TagScanner, so
// one Go type serves every dependency graph.
type N struct {
	Nm                     string
	Q                      string
	S0, S1, S2, S3, S4, S5 Iface
	P0, P1, P2, P3         *N
	L0                     []Iface
	LP                     []*N
	V0                     string
	// typed configuration points (tagged only by the typed-optional program variants)
	VD time.Duration
	VL []string
	VP *string
	VM map[string]string
	VS struct {
		A string `yaml:"a"`
	}
	M0      Missing // by-type point that no component can satisfy
	rt      *RT
	Idx     int
	Copy    string   // non-empty: this object is a same-type substitute made at that timing
	lookups []string // names looked up through the container inside Init
	swallow bool     // a failing look-up is ignored (best-effort warm-up); Init reports its completion
}

func (n *N) ID() string        { return n.Nm }
func (n *N) Naming() string    { return n.Nm }
func (n *N) Qualifier() string { return n.Q }
func (n *N) AfterPropertiesSet() error {
	n.rt.Event("aps:" + n.Nm)
	return n.rt.Fault("aps:" + n.Nm)
}
func (n *N) Init() error {
	n.rt.Event("init:" + n.Nm)
	for _, t := range n.lookups {
		// programmatic lookup while this component is still being created
		if n.rt.App != nil {
			_, err := n.rt.App.GetComponentByName(t)
			n.rt.Event(fmt.Sprintf("lookup:%s->%s:err=%v", n.Nm, t, err != nil))
			if err != nil && !n.swallow {
				// an ordinary program does not swallow the failure of something it needs
				return err
			}
		}
	}
	if err := n.rt.Fault("init:" + n.Nm); err != nil {
		return err
	}
	if n.rt.InitDone {
		n.rt.Event("init-done:" + n.Nm)
	}
	return nil
}

// ProcNode is a user post-processor that is itself an ordinary component with injection points
// (declared with ordinary static tags): it must be populated and initialised like any other.
type ProcNode struct {
	processors.DefaultComponentPostProcessor
	Dep Iface  `wire:"a"`
	V0  string `value:"${cfg.a}"`
	rt  *RT
	// SeenDepType is the dynamic type of Dep when Init ran (raw node or a substitute)
	SeenDepType string
}

// ProcOrdered / ProcNodeOrdered put the two user processors into the Ordered class.
type ProcOrdered struct {
	*Proc
	O int
}

func (p *ProcOrdered) Order() int { return p.O }

type ProcNodeOrdered struct {
	ProcNode
	O int
}

func (p *ProcNodeOrdered) Order() int { return p.O }

func (p *ProcNode) Naming() string { return "zz-procnode" }
func (p *ProcNode) AfterPropertiesSet() error {
	p.rt.Event(fmt.Sprintf("aps:zz-procnode:dep=%v:v0=%s", p.Dep != nil, p.V0))
	return nil
}
func (p *ProcNode) Init() error {
	dep := "-"
	if b := NodeOf(p.Dep); b != nil {
		dep = b.Nm
	}
	p.SeenDepType = fmt.Sprintf("%T", p.Dep)
	p.rt.Event(fmt.Sprintf("init:zz-procnode:dep=%s:v0=%s", dep, p.V0))
	return nil
}

// NZ is a lazily initialised node (the container tests LazyInit by type assertion). It embeds N
// by value, so its injection points are reached through an anonymous embedded struct.
type NZ struct{ N }

func (*NZ) LazyInit() {}

// NodeOf returns the node behind a component (through any number of wrappers), or nil.
func NodeOf(v any) *N {
	for {
		switch x := v.(type) {
		case *N:
			return x
		case *NZ:
			return &x.N
		case *W:
			v = x.Inner
		case WF:
			v = x(1)
		default:
			return nil
		}
	}
}

// WF is a func-shaped wrapper (a closure that implements the interface, in the manner of
// http.HandlerFunc): every closure made from one literal has the same code pointer, only what it
// captured tells two of them apart.
type WF func(op int) any

var wfSerial int

// NewWF makes a fresh func-shaped wrapper of inner.
func NewWF(inner Iface, tag string) WF {
	wfSerial++
	serial := wfSerial
	return func(op int) any {
		switch op {
		case 0:
			return inner.ID()
		case 1:
			return inner
		case 2:
			return serial
		}
		return tag
	}
}

func (f WF) ID() string  { return f(0).(string) }
func (f WF) Serial() int { return f(2).(int) }
func (f WF) Tag() string { return f(3).(string) }
func (f WF) AfterPropertiesSet() error {
	if x, ok := f(1).(interface{ AfterPropertiesSet() error }); ok {
		return x.AfterPropertiesSet()
	}
	return nil
}
func (f WF) Init() error {
	if x, ok := f(1).(interface{ Init() error }); ok {
		return x.Init()
	}
	return nil
}

// W wraps a component (what a substituting post-processor returns). It forwards the lifecycle
// methods: a wrapper installed before initialization legitimately receives the init calls.
type W struct {
	Inner Iface
	Tag   string
}

func (w *W) ID() string { return w.Inner.ID() }
func (w *W) AfterPropertiesSet() error {
	if x, ok := w.Inner.(interface{ AfterPropertiesSet() error }); ok {
		return x.AfterPropertiesSet()
	}
	return nil
}
func (w *W) Init() error {
	if x, ok := w.Inner.(interface{ Init() error }); ok {
		return x.Init()
	}
	return nil
}

// TagScanner supplies wire tags per (instance, field) through the public ExtractHandler
// extension point of the default tag-scan definition-registry post-processor.
type TagScanner struct {
	processors.DefaultTagScanDefinitionRegistryPostProcessor
}

func (*TagScanner) Naming() string { return "zz-tagscanner" }

// ValueScanner supplies `value` tags (configuration properties) per instance the same way.
type ValueScanner struct {
	processors.DefaultTagScanDefinitionRegistryPostProcessor
}

func (*ValueScanner) Naming() string { return "zz-valuescanner" }

func NewValueScanner(tags map[string]map[string]string) *ValueScanner {
	s := &ValueScanner{}
	s.NodeType = cd.PropertyTypeConfiguration
	s.Required = true
	s.ExtractHandler = func(meta *cd.Meta, field *cd.Field) (string, string, bool) {
		n := NodeOf(meta.Raw)
		if n == nil {
			return "", "", false
		}
		tv, ok := tags[n.Nm][field.StructField.Name]
		// "prefix|path" selects the prefix tag instead of value
		if i := strings.Index(tv, "|"); ok && i > 0 {
			return tv[:i], tv[i+1:], true
		}
		return "value", tv, ok
	}
	return s
}

func NewTagScanner(tags map[string]map[string]string) *TagScanner {
	s := &TagScanner{}
	s.NodeType = cd.PropertyTypeComponent
	s.Required = true
	s.ExtractHandler = func(meta *cd.Meta, field *cd.Field) (string, string, bool) {
		n := NodeOf(meta.Raw)
		if n == nil {
			return "", "", false
		}
		tv, ok := tags[n.Nm][field.StructField.Name]
		// "tag|value" selects another component tag than wire (func, or a user-defined one)
		if i := strings.Index(tv, "|"); ok && i > 0 {
			return tv[:i], tv[i+1:], true
		}
		return "wire", tv, ok
	}
	return s
}

// Plain is a component that does not implement Iface (a by-name point of a node cannot hold it).
type Plain struct{ X int }

func (*Plain) Naming() string { return "zz-plain" }

// Wrap plans of the substituting processor.
const (
	WrapNone = iota
	WrapEarly
	WrapBefore
	WrapAfter
	WrapEarlyAfterSame
	WrapEarlyAfterDiff
	NumWrapPlans
)

// Plans outside the enumerated range: the processor answers from before-instantiation, which
// short-cuts creation (the container then only applies the after-initialization callbacks).
const (
	WrapInstSelf = 10 + iota // answers the component itself
	WrapInst                 // answers a substitute
)

// Proc is a user post-processor: it observes (event log + snapshot of the node's slots at
// before-initialization) and, if it has a plan for a node, substitutes it.
type Proc struct {
	processors.DefaultInstantiationAwareComponentPostProcessor
	Nm    string
	Plan  map[string]int
	cache map[string]Iface
	fn    bool // substitutes are func-shaped (WF) instead of struct pointers (*W)
	same  bool // substitutes are fresh instances of the component's own type
	rt    *RT
	Snap  map[string]string // slot snapshot per node at before-initialization
	Veto  map[string]bool   // before-initialization answers nil for these components (their init methods and the after-initialization callbacks are skipped)
}

func (p *Proc) Naming() string { return p.Nm }

func (p *Proc) mk(c any, name, tag string, share bool) any {
	n, ok := c.(Iface)
	if !ok {
		return c
	}
	if share {
		if x, ok := p.cache[name]; ok {
			return x
		}
	}
	var x Iface = &W{Inner: n, Tag: tag}
	if p.fn {
		x = NewWF(n, tag)
	}
	if p.same {
		// another instance of the component's own type (a refreshed copy): same type, other object
		if raw, ok := n.(*N); ok {
			cp := *raw
			cp.Copy = tag
			x = &cp
		}
	}
	p.cache[name] = x
	return x
}

func (p *Proc) PostProcessBeforeInstantiation(m *cd.Meta, name string) (any, error) {
	if NodeOf(m.Raw) == nil {
		return nil, nil
	}
	if err := p.rt.Fault("binst:" + p.Nm + ":" + name); err != nil {
		return nil, err
	}
	switch p.Plan[name] {
	case WrapInstSelf:
		p.rt.Event("binst:" + p.Nm + ":" + name)
		return m.Raw, nil
	case WrapInst:
		p.rt.Event("binst:" + p.Nm + ":" + name)
		return p.mk(m.Raw, name, "i", false), nil
	}
	return nil, nil
}

func (p *Proc) PostProcessAfterInstantiation(c any, name string) (bool, error) {
	if NodeOf(c) == nil {
		return false, nil
	}
	if err := p.rt.Fault("ainst:" + p.Nm + ":" + name); err != nil {
		return false, err
	}
	return true, nil
}

func (p *Proc) PostProcessProperties(props []*cd.Property, c any, name string) ([]*cd.Property, error) {
	if NodeOf(c) == nil {
		return nil, nil
	}
	return nil, p.rt.Fault("props:" + p.Nm + ":" + name)
}

func (p *Proc) GetEarlyBeanReference(c any, name string) (any, error) {
	if NodeOf(c) == nil {
		return c, nil
	}
	p.rt.Event("early:" + p.Nm + ":" + name)
	if err := p.rt.Fault("early:" + p.Nm + ":" + name); err != nil {
		return nil, err
	}
	switch p.Plan[name] {
	case WrapEarly, WrapEarlyAfterDiff:
		return p.mk(c, name, "e", false), nil
	case WrapEarlyAfterSame:
		return p.mk(c, name, "s", true), nil
	}
	return c, nil
}

func (p *Proc) PostProcessBeforeInitialization(c any, name string) (any, error) {
	n := NodeOf(c)
	if n == nil {
		return c, nil
	}
	p.rt.Event("before:" + p.Nm + ":" + name)
	p.Snap[name] = Snapshot(n)
	if err := p.rt.Fault("before:" + p.Nm + ":" + name); err != nil {
		return nil, err
	}
	if p.Plan[name] == WrapBefore {
		return p.mk(c, name, "b", false), nil
	}
	if p.Veto[name] {
		return nil, nil
	}
	return c, nil
}

func (p *Proc) PostProcessAfterInitialization(c any, name string) (any, error) {
	if NodeOf(c) == nil {
		return c, nil
	}
	p.rt.Event("after:" + p.Nm + ":" + name)
	if err := p.rt.Fault("after:" + p.Nm + ":" + name); err != nil {
		return nil, err
	}
	switch p.Plan[name] {
	case WrapAfter, WrapEarlyAfterDiff:
		return p.mk(c, name, "a", false), nil
	case WrapEarlyAfterSame:
		return p.mk(c, name, "s", true), nil
	}
	return c, nil
}

// Snapshot renders the identity of everything a node's slots hold.
func Snapshot(n *N) string {
	var sb strings.Builder
	for _, v := range []Iface{n.S0, n.S1, n.S2, n.S3, n.S4, n.S5} {
		fmt.Fprintf(&sb, "%p,", v)
	}
	for _, v := range []*N{n.P0, n.P1, n.P2, n.P3} {
		fmt.Fprintf(&sb, "%p,", v)
	}
	var l []string
	for _, e := range n.L0 {
		l = append(l, fmt.Sprintf("%p", e))
	}
	sort.Strings(l)
	sb.WriteString(strings.Join(l, "+"))
	l = nil
	for _, e := range n.LP {
		l = append(l, fmt.Sprintf("%p", e))
	}
	sort.Strings(l)
	sb.WriteString("|" + strings.Join(l, "+"))
	sb.WriteString("|" + n.V0)
	return sb.String()
}

// Edge kinds of a graph program.
const (
	ENone     = iota
	EName     // required single, by name, interface slot
	ENameOpt  // optional single, by name, interface slot
	ESlice    // member of the []Iface slice, selected by qualifier
	EPtr      // required single, by name, *N slot
	ETypeQ    // required single, by type + qualifier, interface slot
	ESlicePtr // member of the []*N slice, selected by qualifier
	EBoth     // required single by name AND member of the []Iface slice: one target through two points
	NumEdgeKinds
)

// GraphProg is a dependency-graph program (pure data).
type GraphProg struct {
	N             int     `json:"n"`
	Edges         [][]int `json:"edges"` // Edges[i][j]: kind of the injection point of i that targets j
	Lazy          []bool  `json:"lazy,omitempty"`
	Wrap          []int   `json:"wrap,omitempty"`
	Obs           int     `json:"observers,omitempty"`
	Reg           []int   `json:"reg,omitempty"`  // registration order (default 0..n-1)
	Base          []int   `json:"base,omitempty"` // base iteration order of the user names
	Mode          int     `json:"mode,omitempty"`
	Veto          []bool  `json:"vetoed_initialization,omitempty"`   // per node: the processor answers nil from before-initialization
	WrapSame      bool    `json:"same_type_substitutes,omitempty"`   // the substituting processor answers another instance of the component's own type
	WrapFunc      bool    `json:"func_shaped_substitutes,omitempty"` // the substituting processor answers closures (WF) instead of struct pointers
	SwallowLookup bool    `json:"lookup_errors_ignored,omitempty"`   // Init ignores the error of its look-ups; every Init logs its successful completion
	SliceOpt      bool    `json:"optional_slices,omitempty"`         // the slice points are declared required=false
	Faults        bool    `json:"faults,omitempty"`
	ErrShape      int     `json:"err_shape,omitempty"`
	Kinds         string  `json:"kinds,omitempty"`
	Choices       []int   `json:"choices,omitempty"`
	Family        string  `json:"family,omitempty"`
	Config        bool    `json:"config,omitempty"` // bind slot V0 of every node from configuration (value tag)
	Full          bool    `json:"full,omitempty"`   // add two loaders, two runners, a scanner and a factory post-processor (fault sites)
	Extra         []Extra `json:"extra,omitempty"`  // additional unsatisfiable points
	// OrderedProcs: the substituting processor gets Order 100 and the processor-with-dependencies
	// Order 200 (both in the Ordered class); ProcNodeFirst makes the registries enumerate the
	// latter before the former
	OrderedProcs  bool    `json:"ordered_procs,omitempty"`
	ProcNodeFirst bool    `json:"procnode_enumerated_first,omitempty"`
	Bystander     int     `json:"bystander,omitempty"`   // 1: an Ordered(1), 2: a PriorityOrdered(1) processor that only embeds the library default
	ProcNode      bool    `json:"procnode,omitempty"`    // add a post-processor that has injection points of its own
	InitLookup    [][]int `json:"init_lookup,omitempty"` // [i, j]: node i looks node j up by name inside its Init
	// Attach builds additional harness components that need the execution's runtime.
	Attach func(rt *RT) []any `json:"-"`
}

// Extra is an additional injection point / configuration value that cannot be satisfied.
type Extra struct {
	Node int    `json:"node"`
	Kind string `json:"kind"` // name-req name-opt type-req type-opt cfg-req cfg-opt
}

// Runner is an application runner with a fault site.
type Runner struct {
	Nm string
	rt *RT
}

func (r *Runner) Naming() string { return r.Nm }
func (r *Runner) Run() error {
	r.rt.Event("run:" + r.Nm)
	return r.rt.Fault("run:" + r.Nm)
}

// FaultLoader is a configuration loader with a fault site.
type FaultLoader struct {
	Nm  string
	Doc string
	rt  *RT
}

func (l *FaultLoader) LoadConfig() ([]byte, error) {
	if err := l.rt.Fault("load:" + l.Nm); err != nil {
		return nil, err
	}
	return []byte(l.Doc), nil
}

// FaultScanner is a definition-registry post-processor with one fault site per node.
type FaultScanner struct{ rt *RT }

func (*FaultScanner) Naming() string { return "zz-faultscanner" }
func (f *FaultScanner) PostProcessDefinitionRegistry(r container.DefinitionRegistry, c any, name string) error {
	if NodeOf(c) == nil {
		return nil
	}
	return f.rt.Fault("scan:" + name)
}

// FaultFPP is a component-factory post-processor with a fault site.
type FaultFPP struct{ rt *RT }

func (*FaultFPP) Naming() string { return "zz-faultfpp" }
func (f *FaultFPP) PostProcessComponentFactory(container.Factory) error {
	return f.rt.Fault("factorypp")
}

// Name of node i in a program with n nodes: creation order is alphabetical, so names are ordered
// like indices.
func Name(i, n int) string {
	if n <= 26 {
		return string(rune('a' + i))
	}
	return fmt.Sprintf("n%03d", i)
}

// GraphObs is what one execution of a graph program produced.
type GraphObs struct {
	Prog        *GraphProg
	RT          *RT
	Nodes       []*N
	Comps       []any // the registered node objects (*N or *NZ)
	Procs       []*Proc
	ProcNode    *ProcNode
	Err         error
	Panic       string
	Abort       string // budget exceeded (termination oracle)
	Fin         []any  // GetComponentByName per node after a successful start (nil entry: lookup failed)
	FinErr      []error
	App         *app.App
	Trace       *TraceSCR
	Dead        bool
	ChildPanics []string
}

func (o *GraphObs) OK() bool { return o.Err == nil && o.Panic == "" && o.Abort == "" }

// IsUserName tells the order hook which keys are permutable: the program's node names and the
// property-group names of a Meta.
func userPred(names map[string]bool) func(string) bool {
	return func(k string) bool {
		return names[k] || k == "Component" || k == "Configuration" || k == "Logger"
	}
}

// Tags computes the per-node tag table of a program.
func (p *GraphProg) Tags() (tags map[string]map[string]string, slots [][]string) {
	tags = map[string]map[string]string{}
	slots = make([][]string, p.N)
	for i := 0; i < p.N; i++ {
		nm := Name(i, p.N)
		t := map[string]string{}
		slots[i] = make([]string, p.N)
		s, ptr := 0, 0
		var ql, qlp []string
		for j := 0; j < p.N; j++ {
			tn := Name(j, p.N)
			switch p.Edges[i][j] {
			case EName:
				f := fmt.Sprintf("S%d", s)
				s++
				t[f], slots[i][j] = tn, f
			case ENameOpt:
				f := fmt.Sprintf("S%d", s)
				s++
				t[f], slots[i][j] = tn+",required=false", f
			case ETypeQ:
				f := fmt.Sprintf("S%d", s)
				s++
				t[f], slots[i][j] = ",qualifier=q"+tn, f
			case EPtr:
				f := fmt.Sprintf("P%d", ptr)
				ptr++
				t[f], slots[i][j] = tn, f
			case EBoth:
				f := fmt.Sprintf("S%d", s)
				s++
				t[f], slots[i][j] = tn, f
				ql = append(ql, "q"+tn)
			case ESlice:
				ql = append(ql, "q"+tn)
				slots[i][j] = "L0"
			case ESlicePtr:
				qlp = append(qlp, "q"+tn)
				slots[i][j] = "LP"
			}
		}
		if s > 6 || ptr > 4 {
			panic("graph program needs more slots than the universal node has")
		}
		for _, x := range p.Extra {
			if x.Node != i {
				continue
			}
			switch x.Kind {
			case "name-req":
				t["S5"] = "nobody"
			case "name-opt":
				t["S5"] = "nobody,required=false"
			case "type-req":
				t["M0"] = ""
			case "type-opt":
				t["M0"] = ",required=false"
			case "func-req":
				t["S5"] = "func|NoSuchMethod"
			case "func-opt":
				t["S5"] = "func|NoSuchMethod,required=false"
			case "custom-req":
				t["S5"] = "usertag|whatever"
			case "nametype-req": // a component of that name exists, but it does not fit the field
				t["S5"] = "zz-plain"
			case "nametype-opt":
				t["S5"] = "zz-plain,required=false"
			case "custom-opt":
				t["S5"] = "usertag|whatever,required=false"
			case "namequal-req": // the named component exists and fits, but does not carry the requested qualifier
				t["S5"] = Name((i+1)%p.N, p.N) + ",qualifier=nope"
			case "namequal-opt":
				t["S5"] = Name((i+1)%p.N, p.N) + ",qualifier=nope,required=false"
			}
		}
		opt := ""
		if p.SliceOpt {
			opt = ",required=false"
		}
		if len(ql) > 0 {
			t["L0"] = ",qualifier=" + strings.Join(ql, " ") + opt
		}
		if len(qlp) > 0 {
			t["LP"] = ",qualifier=" + strings.Join(qlp, " ") + opt
		}
		tags[nm] = t
	}
	return
}

// Slot reads a single-valued slot of a node by field name.
func (n *N) Slot(f string) any {
	switch f {
	case "S0":
		return n.S0
	case "S1":
		return n.S1
	case "S2":
		return n.S2
	case "S3":
		return n.S3
	case "S4":
		return n.S4
	case "S5":
		return n.S5
	case "P0":
		return n.P0
	case "P1":
		return n.P1
	case "P2":
		return n.P2
	case "P3":
		return n.P3
	}
	return nil
}

// IsNilSlot reports whether a slot value is empty (nil interface or nil pointer).
func IsNilSlot(v any) bool {
	switch x := v.(type) {
	case nil:
		return true
	case *N:
		return x == nil
	case Iface:
		return x == nil
	}
	return false
}

// RunGraph executes one real start of the program under the chooser and collects observations.
func RunGraph(p *GraphProg, ch *envx.Chooser) *GraphObs {
	core.Tick()
	rt := &RT{Ch: ch, Faults: p.Faults, Mode: p.Mode, ErrShape: p.ErrShape, InitDone: p.SwallowLookup}
	o := &GraphObs{Prog: p, RT: rt}
	names := map[string]bool{}
	tags, _ := p.Tags()
	for i := 0; i < p.N; i++ {
		nm := Name(i, p.N)
		names[nm] = true
		if len(p.Lazy) > i && p.Lazy[i] {
			z := &NZ{N: N{Nm: nm, Q: "q" + nm, rt: rt, Idx: i}}
			o.Nodes = append(o.Nodes, &z.N)
			o.Comps = append(o.Comps, z)
		} else {
			n := &N{Nm: nm, Q: "q" + nm, rt: rt, Idx: i}
			o.Nodes = append(o.Nodes, n)
			o.Comps = append(o.Comps, n)
		}
	}
	for _, l := range p.InitLookup {
		o.Nodes[l[0]].lookups = append(o.Nodes[l[0]].lookups, Name(l[1], p.N))
		o.Nodes[l[0]].swallow = p.SwallowLookup
	}
	rt.User = userPred(names)
	if p.Base != nil {
		for _, i := range p.Base {
			rt.Base = append(rt.Base, Name(i, p.N))
		}
	}
	var comps []any
	if p.Reg != nil {
		for _, i := range p.Reg {
			comps = append(comps, o.Comps[i])
		}
	} else {
		comps = append(comps, o.Comps...)
	}
	comps = append(comps, NewTagScanner(tags))
	if p.Attach != nil {
		comps = append(comps, p.Attach(rt)...)
	}
	if p.ProcNode {
		if p.OrderedProcs {
			pn := &ProcNodeOrdered{ProcNode: ProcNode{rt: rt}, O: 200}
			o.ProcNode = &pn.ProcNode
			comps = append(comps, pn)
			names["zz-proc0"], names["zz-procnode"] = true, true
			if rt.Base == nil {
				for i := 0; i < p.N; i++ {
					rt.Base = append(rt.Base, Name(i, p.N))
				}
			}
			if p.ProcNodeFirst {
				rt.Base = append(rt.Base, "zz-procnode", "zz-proc0")
			} else {
				rt.Base = append(rt.Base, "zz-proc0", "zz-procnode")
			}
		} else {
			pn := &ProcNode{rt: rt}
			o.ProcNode = pn
			comps = append(comps, pn)
		}
	}
	for _, x := range p.Extra {
		if strings.HasPrefix(x.Kind, "nametype-") {
			comps = append(comps, &Plain{})
			break
		}
	}
	switch p.Bystander {
	case 1:
		comps = append(comps, &BystanderO{})
	case 2:
		comps = append(comps, &BystanderP{})
	}
	var opts []app.SettingOption
	if p.Config {
		vt := map[string]map[string]string{}
		var sb strings.Builder
		sb.WriteString("cfg:\n")
		for i := 0; i < p.N; i++ {
			nm := Name(i, p.N)
			vt[nm] = map[string]string{"V0": "${cfg." + nm + "}"}
			for _, x := range p.Extra {
				if x.Node == i && x.Kind == "cfg-req" {
					vt[nm]["V0"] = "${cfg.nokey}"
				}
				if x.Node == i && x.Kind == "cfg-opt" {
					vt[nm]["V0"] = "${cfg.nokey},required=false"
				}
				if x.Node == i && (x.Kind == "cfgtypes-opt" || x.Kind == "cfgempty-opt" || x.Kind == "pfxtypes-opt") {
					tv := "${cfg.nokey},required=false"
					switch x.Kind {
					case "cfgempty-opt":
						tv = ",required=false"
					case "pfxtypes-opt":
						tv = "prefix|cfg.nokey,required=false"
					}
					for _, fld := range []string{"VD", "VL", "VP", "VM", "VS"} {
						vt[nm][fld] = tv
					}
				}
				if x.Node == i && x.Kind == "pfx-req" {
					vt[nm]["V0"] = "prefix|cfg.nokey"
				}
				if x.Node == i && x.Kind == "pfx-opt" {
					vt[nm]["V0"] = "prefix|cfg.nokey,required=false"
				}
			}
			sb.WriteString("  " + nm + ": v-" + nm + "\n")
		}
		comps = append(comps, NewValueScanner(vt))
		if p.Full {
			opts = append(opts, app.SetConfigLoader(&FaultLoader{Nm: "l1", Doc: sb.String(), rt: rt}, &FaultLoader{Nm: "l2", Doc: "other:\n  k: 1\n", rt: rt}, &FaultLoader{Nm: "l3", Doc: "third:\n  k: 2\n", rt: rt}))
		} else {
			opts = append(opts, app.SetConfigLoader(loader.NewRawLoader([]byte(sb.String()))))
		}
	}
	if p.Full {
		comps = append(comps, &Runner{Nm: "zz-run1", rt: rt}, &Runner{Nm: "zz-run2", rt: rt}, &FaultScanner{rt: rt}, &FaultFPP{rt: rt})
	}
	anyWrap := false
	for _, w := range p.Wrap {
		if w != WrapNone {
			anyWrap = true
		}
	}
	nproc := p.Obs
	if anyWrap && nproc == 0 {
		nproc = 1
	}
	for k := 0; k < nproc; k++ {
		pr := &Proc{Nm: fmt.Sprintf("zz-proc%d", k), Plan: map[string]int{}, cache: map[string]Iface{}, fn: p.WrapFunc, same: p.WrapSame, rt: rt, Snap: map[string]string{}}
		if k == 0 {
			for i, w := range p.Wrap {
				pr.Plan[Name(i, p.N)] = w
			}
			for i, v := range p.Veto {
				if v {
					if pr.Veto == nil {
						pr.Veto = map[string]bool{}
					}
					pr.Veto[Name(i, p.N)] = true
				}
			}
		}
		o.Procs = append(o.Procs, pr)
		if p.OrderedProcs && k == 0 {
			comps = append(comps, &ProcOrdered{Proc: pr, O: 100})
		} else {
			comps = append(comps, pr)
		}
	}
	edges := 0
	for i := range p.Edges {
		for _, k := range p.Edges[i] {
			if k != ENone {
				edges++
			}
		}
	}
	o.Trace = NewTraceSCR(p.N+12+nproc+2, 400*(p.N+edges)+4000)
	s := app.NewApp()
	o.App = s
	rt.App = s
	rt.Install()
	vsync.Begin()
	o.Panic = Protect(func() {
		defer func() {
			if r := recover(); r != nil {
				if b, ok := r.(BudgetExceeded); ok {
					o.Abort = b.Msg
					return
				}
				if _, ok := r.(vsync.DeadlockPanic); ok {
					o.Dead = true
					o.Abort = "deadlock"
					return
				}
				panic(r)
			}
		}()
		opts = append(opts, app.SetFactory(factory.NewWithRegistries(nil, o.Trace.Wrap)), app.SetComponents(comps...))
		o.Err = s.Run(opts...)
	})
	if o.OK() {
		o.Fin = make([]any, p.N)
		o.FinErr = make([]error, p.N)
		pan := Protect(func() {
			for i := 0; i < p.N; i++ {
				if len(p.Lazy) > i && p.Lazy[i] {
					continue // looked up separately by the lifecycle oracle
				}
				o.Fin[i], o.FinErr[i] = s.GetComponentByName(Name(i, p.N))
			}
		})
		if pan != "" {
			o.Panic = "lookup after start: " + pan
		}
	}
	vsync.End()
	o.ChildPanics = append([]string{}, vsync.ChildPanics...)
	if vsync.Deadlock {
		o.Dead = true
	}
	Uninstall()
	return o
}

var _ container.SmartInstantiationAwareBeanPostProcessor = (*Proc)(nil)

// SetRT attaches a runtime (event log) to a stand-alone node.
func SetRT(n *N, rt *RT) { n.rt = rt }
