package scen

import (
	"fmt"
	"os"
	"path/filepath"
	"strings"

	"github.com/go-kid/ioc/util/vsync"

	"verif/internal/core"
	"verif/internal/envx"
)

// SchedStats of one schedule exploration.
type SchedStats struct {
	Execs     int64
	Points    int64
	MaxPoints int
	Truncated bool
	RaceExecs int64 // executions during which the race detector wrote a report
	Deadlocks int64
}

// SchedExec describes one explored schedule to the oracle callback.
type SchedExec struct {
	Script      []int // the choices taken (complete)
	Raced       bool  // tsan reported during this execution
	Deadlock    bool
	Unfinished  int
	ChildPanics []string
}

// RaceLogSize returns the total size of the race detector's log files of this process
// (GORACE=log_path=...). Growth during an execution attributes a report to that schedule.
func RaceLogSize() int64 {
	g := os.Getenv("GORACE")
	i := strings.Index(g, "log_path=")
	if i < 0 {
		return 0
	}
	path := strings.Fields(g[i+len("log_path="):])[0]
	ms, _ := filepath.Glob(path + ".*")
	var n int64
	for _, m := range ms {
		if st, err := os.Stat(m); err == nil {
			n += st.Size()
		}
	}
	return n
}

// RaceLogTail returns the last bytes of the race log (for violation details).
func RaceLogTail(max int) string {
	g := os.Getenv("GORACE")
	i := strings.Index(g, "log_path=")
	if i < 0 {
		return ""
	}
	path := strings.Fields(g[i+len("log_path="):])[0]
	ms, _ := filepath.Glob(path + ".*")
	out := ""
	for _, m := range ms {
		b, _ := os.ReadFile(m)
		out += string(b)
	}
	if len(out) > max {
		out = out[:max]
	}
	return out
}

// ExploreSched explores goroutine schedules of body with iterative preemption bounding: the
// scheduler inside the shim replays a script and records every scheduling decision; switching
// away from a goroutine that could continue costs one preemption. body runs between
// vsync.Begin and vsync.End on the calling goroutine; after(e) is the per-schedule oracle.
// The first call of body is an unscheduled warm-up (process-global caches reach their steady
// state so that every explored execution starts alike).
func ExploreSched(bound int, maxExecs int64, stop func() bool, body func(), after func(e *SchedExec)) SchedStats {
	var st SchedStats
	vsync.Chooser, vsync.OrderHook = nil, nil
	// warm-up under the scheduler (default schedule): End joins every goroutine the body
	// spawned, so nothing of it leaks into the explored executions
	// tsan reports each racing pair once per process: a report raised during the warm-up (which
	// runs the default schedule) is attributed to the first explored execution (same schedule)
	warmBefore := RaceLogSize()
	vsync.Script = nil
	vsync.Begin()
	func() {
		defer func() { recover() }()
		body()
	}()
	vsync.End()
	warmRaced := RaceLogSize() != warmBefore
	type item struct{ pre, preN []int } // scripted choices and the number of alternatives each had
	stack := []item{{nil, nil}}
	for len(stack) > 0 {
		if (maxExecs > 0 && st.Execs >= maxExecs) || (stop != nil && stop()) {
			st.Truncated = true
			break
		}
		it := stack[len(stack)-1]
		stack = stack[:len(stack)-1]
		before := RaceLogSize()
		core.Tick()
		vsync.Script = it.pre
		vsync.Begin()
		dead := false
		func() {
			defer func() {
				if r := recover(); r != nil {
					if _, ok := r.(vsync.DeadlockPanic); ok {
						dead = true
						return
					}
					panic(r)
				}
			}()
			body()
		}()
		vsync.End()
		rec := append([]vsync.SchedPoint{}, vsync.Rec...)
		e := &SchedExec{Raced: RaceLogSize() != before || (warmRaced && st.Execs == 0), Deadlock: dead || vsync.Deadlock, Unfinished: vsync.Unfinished, ChildPanics: append([]string{}, vsync.ChildPanics...)}
		for _, p := range rec {
			e.Script = append(e.Script, p.Chosen)
		}
		st.Execs++
		st.Points += int64(len(rec))
		if len(rec) > st.MaxPoints {
			st.MaxPoints = len(rec)
		}
		if e.Raced {
			st.RaceExecs++
		}
		if e.Deadlock {
			st.Deadlocks++
		}
		if len(rec) < len(it.pre) {
			vsync.Diverged = "execution ended before its scripted prefix"
		}
		for k := 0; k < len(it.preN) && k < len(rec) && vsync.Diverged == ""; k++ {
			if rec[k].N != it.preN[k] {
				vsync.Diverged = fmt.Sprintf("choice point %d had %d alternatives when recorded, %d when replayed", k, it.preN[k], rec[k].N)
			}
		}
		if vsync.Diverged != "" {
			// executions of one program are not independent (state surviving between them) or the
			// harness lost a source of nondeterminism: nothing further can be trusted
			panic(envx.Divergence{Msg: vsync.Diverged})
		}
		after(e)
		cost := 0
		for i, p := range rec {
			if i >= len(it.pre) {
				c := cost
				if p.Preempt {
					c++
				}
				if c <= bound {
					for alt := p.N - 1; alt >= 1; alt-- {
						np, nn := make([]int, i+1), make([]int, i+1)
						for k := 0; k <= i; k++ {
							np[k], nn[k] = rec[k].Chosen, rec[k].N
						}
						np[i] = alt
						stack = append(stack, item{np, nn})
					}
				}
			}
			if p.Preempt && p.Chosen != 0 {
				cost++
			}
		}
	}
	vsync.Script = nil
	return st
}

// ReplaySched runs body once under the given script.
func ReplaySched(script []int, body func()) *SchedExec {
	vsync.Chooser, vsync.OrderHook = nil, nil
	before := RaceLogSize()
	vsync.Script = script
	vsync.Begin()
	dead := false
	func() {
		defer func() {
			if r := recover(); r != nil {
				if _, ok := r.(vsync.DeadlockPanic); ok {
					dead = true
					return
				}
				panic(r)
			}
		}()
		body()
	}()
	vsync.End()
	if vsync.Diverged != "" {
		vsync.Script = nil
		panic(envx.Divergence{Msg: vsync.Diverged})
	}
	e := &SchedExec{Raced: RaceLogSize() != before, Deadlock: dead || vsync.Deadlock, Unfinished: vsync.Unfinished, ChildPanics: append([]string{}, vsync.ChildPanics...)}
	for _, p := range vsync.Rec {
		e.Script = append(e.Script, p.Chosen)
	}
	vsync.Script = nil
	return e
}
