// Package scen: scenario vocabulary shared by the property drivers — the per-execution runtime
// (event log, fault points, order hook), universal graph nodes, processors, tracing registries.
package scen

import (
	"fmt"
	"sort"
	"strings"

	"github.com/go-kid/ioc/app"
	"github.com/go-kid/ioc/util/vsync"
	pkgerrors "github.com/pkg/errors"

	"verif/internal/envx"
)

// RT is the runtime of one execution: everything harness objects need to talk to the explorer.
type RT struct {
	App     *app.App // the container of this execution (for programmatic lookups from callbacks)
	Ch      *envx.Chooser
	Log     []string
	Faults  bool     // fault points are choice points (kind 'F')
	Armed   []string // sites that returned an injected error in this execution
	Reached []string // fault sites reached (in order)
	// order control
	User     func(key string) bool
	Base     []string // default relative order of the permutable keys (nil: sorted)
	Mode     int      // 0 permutable keys stay in their sorted slots, 1 first, 2 last
	InitDone bool     // nodes log "init-done:<name>" when their Init returns nil
	// ErrShape selects what kind of error value armed fault sites and failing participants return
	ErrShape int
	Perms    int // number of 'P' points seen
}

func (rt *RT) Event(e string) { rt.Log = append(rt.Log, e) }

// ErrInjected is returned by armed fault sites.
type ErrInjected struct{ Site string }

func (e ErrInjected) Error() string { return "injected fault at " + e.Site }

// Shapes of injected error values: all of them are non-nil errors; they differ in what the
// usual error-inspection conventions (Cause, Unwrap, message, format verbs) make of them.
const (
	ErrPlain     = iota // a plain value with a message
	ErrStacked          // github.com/pkg/errors value carrying a stack and a cause
	ErrCauserNil        // implements Cause() error and answers nil
	ErrUnwrapNil        // implements Unwrap() error and answers nil
	ErrEmptyMsg         // Error() is the empty string
	ErrPercent          // the message contains format verbs
	NumErrShapes
)

type errCauserNil struct{ ErrInjected }

func (errCauserNil) Cause() error { return nil }

type errUnwrapNil struct{ ErrInjected }

func (errUnwrapNil) Unwrap() error { return nil }

type errEmpty struct{ Site string }

func (errEmpty) Error() string { return "" }

type errPercent struct{ ErrInjected }

func (e errPercent) Error() string { return "injected fault 100%s %d %v %!(NOVERB) at " + e.Site }

// MkErr builds the injected error of this execution's shape.
func (rt *RT) MkErr(site string) error {
	shape := 0
	if rt != nil {
		shape = rt.ErrShape
	}
	switch shape {
	case ErrStacked:
		return pkgerrors.WithStack(ErrInjected{site})
	case ErrCauserNil:
		return errCauserNil{ErrInjected{site}}
	case ErrUnwrapNil:
		return errUnwrapNil{ErrInjected{site}}
	case ErrEmptyMsg:
		return errEmpty{site}
	case ErrPercent:
		return errPercent{ErrInjected{site}}
	}
	return ErrInjected{site}
}

// Fault is called by harness callbacks; it returns an error when the explorer arms this site.
func (rt *RT) Fault(site string) error {
	if rt == nil || !rt.Faults {
		return nil
	}
	rt.Reached = append(rt.Reached, site)
	if rt.Ch.Choose('F', 2, 1) == 1 {
		rt.Armed = append(rt.Armed, site)
		return rt.MkErr(site)
	}
	return nil
}

// Install makes this runtime own iteration order and scheduling for the coming execution.
func (rt *RT) Install() {
	vsync.OrderHook = rt.order
	vsync.Chooser = func(kind byte, n int, preempt bool) int {
		cost := 0
		if preempt {
			cost = 1
		}
		return rt.Ch.Choose('S', n, cost)
	}
}

// Uninstall removes the hooks.
func Uninstall() {
	vsync.OrderHook = nil
	vsync.Chooser = nil
}

func factorial(n int) int {
	f := 1
	for i := 2; i <= n; i++ {
		f *= i
	}
	return f
}

// NthPerm returns the k-th permutation of 0..n-1 in lexicographic order (k=0: identity).
func NthPerm(n, k int) []int {
	avail := make([]int, n)
	for i := range avail {
		avail[i] = i
	}
	out := make([]int, 0, n)
	for i := n; i >= 1; i-- {
		f := factorial(i - 1)
		j := k / f
		k %= f
		out = append(out, avail[j])
		avail = append(avail[:j], avail[j+1:]...)
	}
	return out
}

func (rt *RT) order(keys []string) []int {
	n := len(keys)
	id := make([]int, n)
	for i := range id {
		id[i] = i
	}
	if rt.User == nil {
		return id
	}
	var u, b []int
	for i, k := range keys {
		if rt.User(k) {
			u = append(u, i)
		} else {
			b = append(b, i)
		}
	}
	if len(u) == 0 {
		return id
	}
	// base order of the permutable keys
	if rt.Base != nil {
		pos := map[string]int{}
		for i, k := range rt.Base {
			pos[k] = i + 1
		}
		sort.SliceStable(u, func(i, j int) bool {
			pi, pj := pos[keys[u[i]]], pos[keys[u[j]]]
			if pi == 0 {
				pi = 1 << 30
			}
			if pj == 0 {
				pj = 1 << 30
			}
			return pi < pj
		})
	}
	if len(u) >= 2 {
		rt.Perms++
		var perm []int
		if len(u) <= 4 {
			perm = NthPerm(len(u), rt.Ch.Choose('P', factorial(len(u)), 1))
		} else {
			// identity, reverse, rotations
			k := rt.Ch.Choose('P', len(u)+1, 1)
			perm = make([]int, len(u))
			switch {
			case k == 0:
				for i := range perm {
					perm[i] = i
				}
			case k == 1:
				for i := range perm {
					perm[i] = len(u) - 1 - i
				}
			default:
				for i := range perm {
					perm[i] = (i + k - 1) % len(u)
				}
			}
		}
		nu := make([]int, len(u))
		for i, p := range perm {
			nu[i] = u[p]
		}
		u = nu
	}
	switch rt.Mode {
	case 1:
		return append(append([]int{}, u...), b...)
	case 2:
		return append(append([]int{}, b...), u...)
	}
	// mode 0: permutable keys occupy the slots permutable keys had in sorted order
	out := make([]int, 0, n)
	ui := 0
	for i, k := range keys {
		if rt.User(k) {
			out = append(out, u[ui])
			ui++
		} else {
			out = append(out, i)
		}
	}
	return out
}

// FirstLine shortens an error for outcome signatures.
func FirstLine(err error) string {
	if err == nil {
		return ""
	}
	s := err.Error()
	if i := strings.Index(s, "\n"); i >= 0 {
		s = s[:i]
	}
	if len(s) > 200 {
		s = s[:200]
	}
	return s
}

// Protect runs f and converts a panic into a string.
func Protect(f func()) (pan string) {
	defer func() {
		if r := recover(); r != nil {
			pan = fmt.Sprint(r)
			if pan == "" {
				pan = "panic"
			}
		}
	}()
	f()
	return ""
}

// Guard runs f and reports a budget abort (termination oracle) or a panic instead of unwinding.
func Guard(f func()) (abort, pan string) {
	defer func() {
		if r := recover(); r != nil {
			if b, ok := r.(BudgetExceeded); ok {
				abort = b.Msg
				return
			}
			pan = fmt.Sprint(r)
			if pan == "" {
				pan = "panic"
			}
		}
	}()
	f()
	return
}
