// Package envx is the deviation-bounded depth-first explorer over choice sequences (engine E1/E2
// core). An execution is a deterministic function of its choice sequence; the explorer replays a
// prefix, answers 0 (the default) at every later point, and branches on every later point whose
// deviation cost stays within the bound.
package envx

import "fmt"

// Point is one recorded choice point.
type Point struct {
	Kind   byte // 'S' schedule, 'P' permutation, 'F' fault, ...
	N      int  // number of alternatives
	Chosen int
	Cost   int // cost of taking a non-default alternative here
}

// Chooser answers choice points for one execution.
type Chooser struct {
	prefix []int
	expect []Point // kind/arity expected while replaying the prefix (nil: unchecked)
	Pts    []Point
	kinds  string
}

// Divergence is the panic value raised when an execution does not follow its prefix.
type Divergence struct{ Msg string }

func (d Divergence) Error() string { return "envx: replay divergence: " + d.Msg }

// Choose returns the alternative for a point of the given kind with n alternatives; cost is the
// deviation cost of a non-default answer at this point. Kinds that are not explored always get 0
// and are not recorded.
func (c *Chooser) Choose(kind byte, n int, cost int) int {
	if c == nil || n <= 1 {
		return 0
	}
	explored := false
	for i := 0; i < len(c.kinds); i++ {
		if c.kinds[i] == kind {
			explored = true
		}
	}
	if !explored {
		return 0
	}
	i := len(c.Pts)
	ch := 0
	if i < len(c.prefix) {
		ch = c.prefix[i]
		if ch < 0 || ch >= n {
			panic(Divergence{fmt.Sprintf("point %d: choice %d out of range %d", i, ch, n)})
		}
		if c.expect != nil && i < len(c.expect) && (c.expect[i].Kind != kind || c.expect[i].N != n) {
			panic(Divergence{fmt.Sprintf("point %d: expected %c/%d, got %c/%d", i, c.expect[i].Kind, c.expect[i].N, kind, n)})
		}
	}
	c.Pts = append(c.Pts, Point{kind, n, ch, cost})
	return ch
}

// Choices returns the choice sequence taken so far.
func (c *Chooser) Choices() []int {
	out := make([]int, len(c.Pts))
	for i, p := range c.Pts {
		out[i] = p.Chosen
	}
	return out
}

// Deviations returns the total deviation cost spent by this execution.
func (c *Chooser) Deviations() int {
	d := 0
	for _, p := range c.Pts {
		if p.Chosen != 0 {
			d += p.Cost
		}
	}
	return d
}

// Stats of one exploration.
type Stats struct {
	Execs     int64
	Points    int64 // choice points recorded over all executions
	Nodes     int64 // distinct (choice-prefix) nodes of the exploration tree = executions
	MaxDepth  int
	Truncated bool // stopped by MaxExecs or by stop()
}

// Options for Explore.
type Options struct {
	Kinds    string // kinds to branch on
	Bound    int    // deviation bound
	MaxExecs int64  // 0: unlimited
	Stop     func() bool
}

// Fixed returns a chooser that replays exactly the given choices (for replays).
func Fixed(kinds string, choices []int) *Chooser {
	return &Chooser{prefix: choices, kinds: kinds}
}

type item struct {
	pre    []int
	expect []Point
}

// Explore runs body for every choice sequence within the bound. body must be deterministic
// given the chooser's answers.
func Explore(o Options, body func(c *Chooser)) Stats {
	var st Stats
	stack := []item{{}}
	for len(stack) > 0 {
		if (o.MaxExecs > 0 && st.Execs >= o.MaxExecs) || (o.Stop != nil && o.Stop()) {
			st.Truncated = true
			break
		}
		it := stack[len(stack)-1]
		stack = stack[:len(stack)-1]
		c := &Chooser{prefix: it.pre, expect: it.expect, kinds: o.Kinds}
		body(c)
		if len(c.Pts) < len(it.pre) {
			panic(Divergence{fmt.Sprintf("execution ended after %d points, prefix has %d", len(c.Pts), len(it.pre))})
		}
		st.Execs++
		st.Nodes++
		st.Points += int64(len(c.Pts))
		if len(c.Pts) > st.MaxDepth {
			st.MaxDepth = len(c.Pts)
		}
		cost := 0
		for i, p := range c.Pts {
			if i >= len(it.pre) {
				if cost+p.Cost <= o.Bound {
					for alt := p.N - 1; alt >= 1; alt-- {
						np := make([]int, i+1)
						for k := 0; k < i; k++ {
							np[k] = c.Pts[k].Chosen
						}
						np[i] = alt
						ex := make([]Point, i+1)
						copy(ex, c.Pts[:i+1])
						stack = append(stack, item{np, ex})
					}
				}
			}
			if p.Chosen != 0 {
				cost += p.Cost
			}
		}
	}
	return st
}
