// Package core: worker context, violation records, summaries (shared by all property drivers).
package core

import (
	"crypto/sha1"
	"encoding/hex"
	"encoding/json"
	"fmt"
	"os"
	"sort"
	"sync/atomic"
	"time"
)

// Tick is called at the start of every execution; the worker's watchdog uses it to recognise an
// execution that never returns (five orders of magnitude above the cost of a start).
var lastTick atomic.Int64
var currentCase atomic.Value // string: JSON of the case being executed

func Tick() { lastTick.Store(time.Now().UnixNano()) }

// SinceTick returns the time since the last execution started.
func SinceTick() time.Duration {
	t := lastTick.Load()
	if t == 0 {
		return 0
	}
	return time.Since(time.Unix(0, t))
}

// CaseFile, when set, receives the current case on every SetCurrentCase (race parts only: the
// orchestrator reads it back when the worker is killed by a fatal runtime error).
var CaseFile string

func SetCurrentCase(v any) {
	b, _ := json.Marshal(v)
	currentCase.Store(string(b))
	if CaseFile != "" {
		os.WriteFile(CaseFile, b, 0o644)
	}
}

func CurrentCase() string {
	if s, ok := currentCase.Load().(string); ok {
		return s
	}
	return ""
}

// Violation is one property violation with everything needed to replay it.
type Violation struct {
	Property string          `json:"property"`
	Key      string          `json:"key"` // stable identity (known-findings matching, de-duplication)
	Kind     string          `json:"kind"`
	Detail   string          `json:"detail"`
	Part     string          `json:"part,omitempty"`
	Case     json.RawMessage `json:"case,omitempty"`
}

// Summary is what a worker (or a whole part) reports.
type Summary struct {
	Part           string           `json:"part"`
	Evaluations    int64            `json:"evaluations"`
	Programs       int64            `json:"programs"`
	Nontrivial     int64            `json:"distinct_nontrivial"`
	States         int64            `json:"states"`
	Transitions    int64            `json:"transitions"`
	Outcomes       map[string]int64 `json:"outcomes"`
	Samples        []any            `json:"samples"`
	Violations     []Violation      `json:"violations"`
	ViolationCount int64            `json:"violation_count"`
	Exhaustive     bool             `json:"exhaustive"`
	Caps           []string         `json:"caps,omitempty"`
	Extra          map[string]int64 `json:"extra,omitempty"`
	EngineError    string           `json:"engine_error,omitempty"`
	DeterminismOK  bool             `json:"determinism_checked"`
	WallS          float64          `json:"wall_s"`
}

// Ctx is handed to a driver part inside a worker process.
type Ctx struct {
	Prop, Tier, Part string
	Seed             int64
	Shard, NShard    int
	Deadline         time.Time
	S                Summary
	seen             map[string]bool
	ReplayCase       json.RawMessage // non-nil: replay mode
}

func NewCtx(prop, tier, part string, seed int64, shard, nshard int, deadline time.Time) *Ctx {
	c := &Ctx{Prop: prop, Tier: tier, Part: part, Seed: seed, Shard: shard, NShard: nshard, Deadline: deadline, seen: map[string]bool{}}
	c.S.Part = part
	c.S.Outcomes = map[string]int64{}
	c.S.Extra = map[string]int64{}
	c.S.Exhaustive = true
	return c
}

// Thorough reports whether the thorough tier was requested.
func (c *Ctx) Thorough() bool { return c.Tier == "thorough" }

// Mine tells whether enumeration index i belongs to this shard.
func (c *Ctx) Mine(i int) bool { return c.NShard <= 1 || i%c.NShard == c.Shard }

// Expired reports (and records) that the internal budget is used up. Budgets are never oracles:
// the run stops enumerating, stays green and says exhaustive=false.
func (c *Ctx) Expired() bool {
	if time.Now().After(c.Deadline) {
		if c.S.Exhaustive {
			c.S.Exhaustive = false
			c.S.Caps = append(c.S.Caps, "wall-clock budget reached in part "+c.Part)
		}
		return true
	}
	return false
}

func (c *Ctx) Cap(msg string) {
	c.S.Exhaustive = false
	c.S.Caps = append(c.S.Caps, msg)
}

func (c *Ctx) Outcome(sig string) { c.S.Outcomes[sig]++ }

func (c *Ctx) Sample(v any) {
	if len(c.S.Samples) < 3 {
		c.S.Samples = append(c.S.Samples, v)
	}
}

const maxKeptViolations = 40

// Report records a violation (de-duplicated by key; at most maxKeptViolations kept verbatim).
func (c *Ctx) Report(key, kind, detail string, cs any) {
	c.S.ViolationCount++
	if c.seen[key] {
		return
	}
	c.seen[key] = true
	if len(c.S.Violations) >= maxKeptViolations {
		return
	}
	var raw json.RawMessage
	if cs != nil {
		raw, _ = json.Marshal(cs)
	}
	c.S.Violations = append(c.S.Violations, Violation{Property: c.Prop, Key: key, Kind: kind, Detail: detail, Part: c.Part, Case: raw})
}

// Emit writes the summary as one JSON line on stdout.
func (c *Ctx) Emit() {
	b, err := json.Marshal(&c.S)
	if err != nil {
		fmt.Fprintln(os.Stderr, "emit:", err)
		os.Exit(2)
	}
	os.Stdout.Write(append(b, '\n'))
}

// Merge adds o into s.
func (s *Summary) Merge(o *Summary) {
	s.Evaluations += o.Evaluations
	s.Programs += o.Programs
	s.Nontrivial += o.Nontrivial
	s.States += o.States
	s.Transitions += o.Transitions
	s.ViolationCount += o.ViolationCount
	if s.Outcomes == nil {
		s.Outcomes = map[string]int64{}
	}
	for k, v := range o.Outcomes {
		s.Outcomes[k] += v
	}
	if s.Extra == nil {
		s.Extra = map[string]int64{}
	}
	for k, v := range o.Extra {
		s.Extra[k] += v
	}
	for _, x := range o.Samples {
		if len(s.Samples) < 4 {
			s.Samples = append(s.Samples, x)
		}
	}
	s.Violations = append(s.Violations, o.Violations...)
	if !o.Exhaustive {
		s.Exhaustive = false
	}
	s.Caps = append(s.Caps, o.Caps...)
	if o.EngineError != "" && s.EngineError == "" {
		s.EngineError = o.EngineError
	}
	if o.WallS > s.WallS {
		s.WallS = o.WallS
	}
}

// Hash is a short stable hash for file names and keys.
func Hash(parts ...any) string {
	h := sha1.New()
	for _, p := range parts {
		b, _ := json.Marshal(p)
		h.Write(b)
		h.Write([]byte{0})
	}
	return hex.EncodeToString(h.Sum(nil))[:12]
}

// SortedKeys of an outcome histogram.
func SortedKeys(m map[string]int64) []string {
	ks := make([]string, 0, len(m))
	for k := range m {
		ks = append(ks, k)
	}
	sort.Strings(ks)
	return ks
}
