// vworker is both the orchestrator (VERIF_ROLE unset) and the worker (VERIF_ROLE=worker) of every
// check. Everything is passed through the environment and stdin, never argv: app.NewApp() runs
// flag.Parse() on the process-global flag set and the default ArgsLoader reads os.Args.
package main

import (
	"bufio"
	"bytes"
	"encoding/json"
	"fmt"
	"os"
	"os/exec"
	"path/filepath"
	"runtime"
	"runtime/debug"
	"runtime/pprof"
	"sort"
	"strconv"
	"strings"
	"sync"
	"syscall"
	"time"

	"github.com/go-kid/ioc/syslog"

	"verif/internal/core"
	"verif/internal/envx"
	"verif/props"
)

func env(k, d string) string {
	if v := os.Getenv(k); v != "" {
		return v
	}
	return d
}

func atoi(s string, d int) int {
	if n, err := strconv.Atoi(s); err == nil {
		return n
	}
	return d
}

func main() {
	if os.Getenv("VERIF_ROLE") == "worker" {
		worker()
		return
	}
	os.Exit(orchestrate())
}

// ---------------------------------------------------------------------------------- worker

func worker() {
	verbose := false
	if d0 := props.Registry[os.Getenv("VERIF_PROP")]; d0 != nil {
		for _, p := range d0.Parts {
			if p.Name == os.Getenv("VERIF_PART") && p.Verbose {
				verbose = true
			}
		}
	}
	if verbose {
		if null, err := os.OpenFile(os.DevNull, os.O_WRONLY, 0); err == nil {
			syscall.Dup3(int(null.Fd()), 2, 0)
		}
		syslog.Level(syslog.LvTrace)
	} else {
		syslog.Level(syslog.LvPanic)
	}
	_ = syslog.LvPanic // once per process: logging code still runs, only Panicf (which must keep panicking as at the default level) prints
	prop, tier, part := os.Getenv("VERIF_PROP"), env("VERIF_TIER", "quick"), os.Getenv("VERIF_PART")
	d := props.Registry[prop]
	if d == nil {
		fmt.Fprintln(os.Stderr, "unknown property", prop)
		os.Exit(2)
	}
	seed, _ := strconv.ParseInt(env("VERIF_SEED", "0"), 10, 64)
	dl, _ := strconv.ParseInt(os.Getenv("VERIF_DEADLINE"), 10, 64)
	c := core.NewCtx(prop, tier, part, seed, atoi(os.Getenv("VERIF_SHARD"), 0), atoi(os.Getenv("VERIF_NSHARD"), 1), time.Unix(dl, 0))
	if rp := os.Getenv("VERIF_REPLAY_CASE"); rp != "" {
		b, err := os.ReadFile(rp)
		if err != nil {
			fmt.Fprintln(os.Stderr, err)
			os.Exit(2)
		}
		c.ReplayCase = b
	}
	if mb := atoi(os.Getenv("VERIF_MEM_MB"), 0); mb > 0 {
		debug.SetMemoryLimit(int64(mb) << 20)
	}
	if pf := os.Getenv("VERIF_PROF"); pf != "" {
		f, _ := os.Create(pf)
		pprof.StartCPUProfile(f)
		defer pprof.StopCPUProfile()
	}
	if sc := os.Getenv("VERIF_SCRATCH"); sc != "" && os.Getenv("VERIF_CRASHFILE") != "" {
		// race parts: a fatal runtime error (the runtime's own concurrent-map-access detector) kills
		// the process; leave its report and the current case where the orchestrator finds them
		if f, err := os.Create(os.Getenv("VERIF_CRASHFILE")); err == nil {
			debug.SetCrashOutput(f, debug.CrashOptions{})
			core.CaseFile = os.Getenv("VERIF_CRASHFILE") + ".case"
		}
	}
	t0 := time.Now()
	// watchdog: an execution that has not returned for two minutes never will
	go func() {
		for {
			time.Sleep(2 * time.Second)
			if core.SinceTick() > 120*time.Second {
				msg := fmt.Sprintf("an execution did not return within 120 s (a start costs about a millisecond); case: %s", core.CurrentCase())
				if dir := os.Getenv("VERIF_HANGDUMP"); dir != "" { // development aid: where every goroutine stands
					buf := make([]byte, 4<<20)
					os.WriteFile(filepath.Join(dir, fmt.Sprintf("hang-%d.txt", os.Getpid())), buf[:runtime.Stack(buf, true)], 0o644)
				}
				if d.HangIsViolation {
					c.Report(prop+"/hang/"+core.Hash(core.CurrentCase()), "non-termination", msg, json.RawMessage(core.CurrentCase()))
					c.S.Exhaustive = false
					c.S.Caps = append(c.S.Caps, "worker stopped at a non-terminating execution")
				} else {
					c.S.EngineError = msg
				}
				c.S.WallS = time.Since(t0).Seconds()
				c.Emit()
				os.Exit(0)
			}
		}
	}()
	func() {
		defer func() {
			if r := recover(); r != nil {
				if dv, ok := r.(envx.Divergence); ok {
					c.S.EngineError = dv.Error()
				} else {
					c.S.EngineError = fmt.Sprintf("driver panic: %v\n%s", r, debug.Stack())
				}
			}
		}()
		for _, p := range d.Parts {
			if p.Name == part {
				p.Run(c)
				return
			}
		}
		c.S.EngineError = "unknown part " + part
	}()
	c.S.WallS = time.Since(t0).Seconds()
	c.Emit()
}

// ---------------------------------------------------------------------------------- orchestrator

type finding struct {
	Status   string `json:"status"` // "known" or "fixed"
	Property string `json:"property"`
	Key      string `json:"key"`
	What     string `json:"what"`
	Commit   string `json:"commit,omitempty"`
}

func orchestrate() int {
	prop, tier := os.Getenv("VERIF_PROP"), env("VERIF_TIER", "quick")
	root := env("VERIF_ROOT", "/verif")
	out := env("VERIF_OUT", root) // where evidence, replays and scratch go (development aid)
	d := props.Registry[prop]
	if d == nil {
		fmt.Fprintln(os.Stderr, "unknown property", prop)
		return 2
	}
	seed, _ := strconv.ParseInt(env("VERIF_SEED", "0"), 10, 64)
	self, _ := os.Executable()
	binRace := env("VERIF_BIN_RACE", "")
	t0 := time.Now()

	// replay mode: one recorded violation, re-executed five times in one worker
	var replay *core.Violation
	if rp := os.Getenv("VERIF_REPLAY"); rp != "" {
		b, err := os.ReadFile(rp)
		if err != nil {
			fmt.Fprintln(os.Stderr, err)
			return 2
		}
		replay = &core.Violation{}
		if err := json.Unmarshal(b, replay); err != nil {
			fmt.Fprintln(os.Stderr, "replay file:", err)
			return 2
		}
	}

	total := core.Summary{Exhaustive: true, Outcomes: map[string]int64{}, Extra: map[string]int64{}}
	var partSums []core.Summary
	for _, p := range d.Parts {
		if replay != nil && replay.Part != p.Name {
			continue
		}
		if only := os.Getenv("VERIF_ONLY_PART"); only != "" && only != p.Name {
			continue // development aid; registered commands never set it
		}
		bin := self
		if p.Race {
			if binRace == "" {
				fmt.Fprintln(os.Stderr, "part", p.Name, "needs the race build (VERIF_BIN_RACE)")
				return 2
			}
			bin = binRace
		}
		w := p.Workers
		if w <= 0 || w > runtime.NumCPU() {
			w = runtime.NumCPU()
		}
		budget := p.QuickS
		if budget == 0 {
			budget = 60
		}
		if tier == "thorough" {
			budget = p.ThoroughS
			if budget == 0 {
				budget = 600
			}
		}
		if b := atoi(os.Getenv("VERIF_BUDGET_S"), 0); b > 0 {
			budget = b
		}
		if replay != nil {
			w = 1
		}
		deadline := time.Now().Add(time.Duration(budget) * time.Second)
		ps := core.Summary{Part: p.Name, Exhaustive: true, Outcomes: map[string]int64{}, Extra: map[string]int64{}}
		var mu sync.Mutex
		var wg sync.WaitGroup
		scratch := filepath.Join(out, ".build", "run", prop+"-"+p.Name)
		os.RemoveAll(scratch)
		os.MkdirAll(scratch, 0o755)
		for i := 0; i < w; i++ {
			wg.Add(1)
			go func(i int) {
				defer wg.Done()
				cmd := exec.Command(bin)
				cmd.Env = append(os.Environ(),
					"VERIF_ROLE=worker", "VERIF_PROP="+prop, "VERIF_TIER="+tier, "VERIF_PART="+p.Name,
					fmt.Sprintf("VERIF_SHARD=%d", i), fmt.Sprintf("VERIF_NSHARD=%d", w),
					fmt.Sprintf("VERIF_DEADLINE=%d", deadline.Unix()), fmt.Sprintf("VERIF_SEED=%d", seed),
					"VERIF_SCRATCH="+filepath.Join(scratch, fmt.Sprintf("w%d", i)),
					"GORACE=log_path="+filepath.Join(scratch, fmt.Sprintf("race%d", i))+" halt_on_error=0 exitcode=0 atexit_sleep_ms=0",
				)
				crashFile := filepath.Join(scratch, fmt.Sprintf("crash%d", i))
				if p.Race {
					cmd.Env = append(cmd.Env, "GOMAXPROCS=2", "VERIF_CRASHFILE="+crashFile)
				} else {
					cmd.Env = append(cmd.Env, "GOMAXPROCS=1") // channel hand-offs stay on one P: no futex wake-ups
				}
				if replay != nil {
					cf := filepath.Join(scratch, "case.json")
					os.WriteFile(cf, replay.Case, 0o644)
					cmd.Env = append(cmd.Env, "VERIF_REPLAY_CASE="+cf)
				}
				var out, errb bytes.Buffer
				cmd.Stdout, cmd.Stderr = &out, &errb
				err := cmd.Run()
				var s core.Summary
				ok := false
				sc := bufio.NewScanner(&out)
				sc.Buffer(make([]byte, 1<<20), 1<<28)
				for sc.Scan() {
					line := sc.Bytes()
					if len(line) > 0 && line[0] == '{' {
						var t core.Summary
						if json.Unmarshal(line, &t) == nil {
							s, ok = t, true
						}
					}
				}
				mu.Lock()
				defer mu.Unlock()
				if !ok || err != nil {
					if crash, _ := os.ReadFile(crashFile); p.Race && bytes.HasPrefix(crash, []byte("fatal error: concurrent map")) {
						// the Go runtime's concurrent-map-access detector fired in repository code running
						// free (or between two scheduling points): a data race by the runtime's own verdict
						cs, _ := os.ReadFile(crashFile + ".case")
						head := string(crash)
						if len(head) > 1500 {
							head = head[:1500]
						}
						first := strings.SplitN(head, "\n", 2)[0]
						v := core.Violation{Property: prop, Key: prop + "/fatal/" + core.Hash(first, string(cs)), Kind: "fatal-concurrent-map-access", Part: p.Name,
							Detail: "the worker process was killed by the Go runtime: " + first + "; case: " + string(cs) + "\n" + head}
						if json.Valid(cs) {
							v.Case = cs
						}
						ps.Violations = append(ps.Violations, v)
						ps.ViolationCount++
						ps.Exhaustive = false
						ps.Caps = append(ps.Caps, "a worker was killed by a fatal runtime error (reported as a violation); its remaining cases were not explored")
						return
					}
					tail := errb.String()
					if len(tail) > 3000 {
						tail = tail[len(tail)-3000:]
					}
					if ps.EngineError == "" {
						ps.EngineError = fmt.Sprintf("worker %d of part %s failed (%v): %s", i, p.Name, err, tail)
					}
					return
				}
				ps.Merge(&s)
			}(i)
		}
		wg.Wait()
		os.RemoveAll(scratch)
		partSums = append(partSums, ps)
		total.Merge(&ps)
	}
	wall := time.Since(t0).Seconds()

	if total.EngineError != "" && len(total.Violations) == 0 {
		fmt.Printf("ENGINE-ERROR property=%s %s\n", prop, total.EngineError)
		return 2
	}
	if total.EngineError != "" {
		// violations were observed on real executions before the engine gave up (typically: the
		// code under test keeps state between executions, so a later replay of a prefix diverged):
		// they stand; the exploration is reported as incomplete
		total.Exhaustive = false
		ee := total.EngineError
		if len(ee) > 300 {
			ee = ee[:300]
		}
		total.Caps = append(total.Caps, "engine error after violations had been recorded (exploration incomplete): "+strings.ReplaceAll(ee, "\n", " "))
	}

	// classify violations against the committed known-findings file (never written at run time)
	var findings []finding
	if b, err := os.ReadFile(filepath.Join(root, "known_findings.json")); err == nil {
		if err := json.Unmarshal(b, &findings); err != nil {
			fmt.Fprintln(os.Stderr, "known_findings.json:", err)
			return 2
		}
	}
	known := map[string]finding{}
	for _, f := range findings {
		if f.Status == "known" && f.Property == prop {
			known[f.Key] = f
		}
	}
	seen := map[string]bool{}
	var fresh []core.Violation
	knownHit := map[string]bool{}
	for _, v := range total.Violations {
		if seen[v.Key] {
			continue
		}
		seen[v.Key] = true
		if _, ok := known[v.Key]; ok {
			knownHit[v.Key] = true
			continue
		}
		fresh = append(fresh, v)
	}
	sort.Slice(fresh, func(i, j int) bool { return fresh[i].Key < fresh[j].Key })
	kk := make([]string, 0, len(knownHit))
	for k := range knownHit {
		kk = append(kk, k)
	}
	sort.Strings(kk)
	for _, k := range kk {
		fmt.Printf("KNOWN-FINDING: property=%s %s\n", prop, known[k].What)
	}
	code := 0
	if dump := os.Getenv("VERIF_DUMP_VIOLATIONS"); dump != "" { // development aid: candidate list for review, never read back
		b, _ := json.MarshalIndent(fresh, "", " ")
		os.WriteFile(dump, b, 0o644)
	}
	if len(fresh) > 0 {
		kinds := map[string]int{}
		for _, v := range fresh {
			k := v.Key
			if i := strings.LastIndex(k, "/"); i > 0 {
				k = k[:i]
			}
			kinds[v.Part+" "+k]++
		}
		fmt.Printf("violation classes (distinct keys kept): %v\n", kinds)
	}
	if replay == nil {
		os.MkdirAll(filepath.Join(out, "replays"), 0o755)
		for i, v := range fresh {
			if i >= 10 {
				fmt.Printf("... %d further distinct violations not written out\n", len(fresh)-i)
				break
			}
			path := filepath.Join(out, "replays", fmt.Sprintf("%s-%s.json", prop, core.Hash(v.Key)))
			b, _ := json.MarshalIndent(v, "", " ")
			os.WriteFile(path, b, 0o644)
			fmt.Printf("VIOLATION property=%s replay=%s\n", prop, path)
			fmt.Printf("  kind=%s part=%s key=%s\n  %s\n", v.Kind, v.Part, v.Key, strings.ReplaceAll(v.Detail, "\n", "\n  "))
		}
	} else {
		for _, v := range fresh {
			fmt.Printf("VIOLATION property=%s replay=%s\n  kind=%s %s\n", prop, os.Getenv("VERIF_REPLAY"), v.Kind, v.Detail)
		}
		if len(fresh) == 0 && len(knownHit) == 0 {
			fmt.Println("replay: no violation reproduced")
		}
	}
	if len(fresh) > 0 {
		code = 1
	}

	if replay == nil {
		if prop != "SELF" { // the self-test of the machinery is not a property: no evidence file
			writeEvidence(out, d, tier, seed, wall, &total, partSums, len(fresh), len(knownHit))
		}
	}
	fmt.Printf("%s %s: evaluations=%d programs=%d states=%d transitions=%d outcomes=%d exhaustive=%v violations=%d known=%d wall=%.1fs\n",
		prop, tier, total.Evaluations, total.Programs, total.States, total.Transitions, len(total.Outcomes), total.Exhaustive, len(fresh), len(knownHit), wall)
	for _, c := range total.Caps {
		fmt.Println("  cap:", c)
	}
	return code
}

func writeEvidence(root string, d *props.Driver, tier string, seed int64, wall float64, t *core.Summary, parts []core.Summary, fresh, known int) {
	type partEv struct {
		Part        string           `json:"part"`
		Evaluations int64            `json:"evaluations"`
		Programs    int64            `json:"programs"`
		States      int64            `json:"states"`
		Transitions int64            `json:"transitions"`
		Nontrivial  int64            `json:"distinct_nontrivial"`
		Outcomes    int              `json:"distinct_outcomes"`
		Exhaustive  bool             `json:"exhaustive"`
		Extra       map[string]int64 `json:"extra,omitempty"`
		WallS       float64          `json:"wall_s"`
	}
	var pe []partEv
	for _, p := range parts {
		pe = append(pe, partEv{p.Part, p.Evaluations, p.Programs, p.States, p.Transitions, p.Nontrivial, len(p.Outcomes), p.Exhaustive, p.Extra, p.WallS})
	}
	hist := map[string]int64{}
	keys := core.SortedKeys(t.Outcomes)
	for i, k := range keys {
		if i < 40 {
			hist[k] = t.Outcomes[k]
		}
	}
	samples := t.Samples
	if len(samples) == 0 {
		samples = []any{"(no sample recorded)"}
	}
	states, trans := t.States, t.Transitions
	if states < 1 {
		states = 1
	}
	if trans < 1 {
		trans = 1
	}
	ev := map[string]any{
		"property_id": d.ID,
		"tier":        tier,
		"seed":        seed,
		"level":       "model_checking",
		"coverage": map[string]any{
			"states":                        states,
			"transitions":                   trans,
			"traces_validated_against_impl": t.Evaluations,
			"evaluations":                   t.Evaluations,
			"programs":                      t.Programs,
			"distinct_nontrivial":           t.Nontrivial,
			"rule":                          d.Rule,
			"samples":                       samples,
			"exhaustive":                    t.Exhaustive,
			"caps_hit":                      t.Caps,
			"distinct_outcomes":             len(t.Outcomes),
			"outcome_histogram":             hist,
			"parts":                         pe,
			"technique":                     d.Technique,
			"explanation":                   "every execution runs the real go-kid/ioc code rebuilt from /repo's working tree (instrumented by overlay); traces_validated_against_impl counts those executions",
		},
		"assumptions":    d.Assumptions,
		"wall_s":         wall,
		"violations":     fresh,
		"known_findings": known,
	}
	b, _ := json.MarshalIndent(ev, "", " ")
	os.MkdirAll(filepath.Join(root, "evidence"), 0o755)
	os.WriteFile(filepath.Join(root, "evidence", d.ID+".json"), append(b, '\n'), 0o644)
}
