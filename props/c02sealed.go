package props

import (
	"fmt"
	"sort"

	"verif/internal/core"
	"verif/internal/envx"
	"verif/internal/scen"
)

// Cycles whose edges are typed with a sealed interface (it has unexported methods, so it counts
// more methods than its implementers export): single-valued and slice edges, implementers with
// fewer / as many / more exported methods than the interface has methods in total.

type c2Sealed interface {
	Label() string
	sealedA()
	sealedB()
}

// one exported method (fewer than the interface's three)
type c2SHost struct {
	Nm      string
	Peer    c2Sealed   `wire:""`
	Plugins []c2Sealed `wire:""`
}

func (h *c2SHost) Label() string { return h.Nm }
func (*c2SHost) sealedA()        {}
func (*c2SHost) sealedB()        {}

// three exported methods
type c2SPlugin struct {
	Nm   string
	Host c2Sealed `wire:"host"`
	All  []c2Sealed
}

func (p *c2SPlugin) Label() string  { return p.Nm }
func (p *c2SPlugin) Naming() string { return p.Nm }
func (p *c2SPlugin) Extra() int     { return 0 }
func (*c2SPlugin) sealedA()         {}
func (*c2SPlugin) sealedB()         {}

func (h *c2SHost) Naming() string { return "host" }

// a plugin that exports only Label and Naming (two, still fewer than three) and points back
type c2SThin struct {
	Nm   string
	Host c2Sealed `wire:"host"`
}

func (p *c2SThin) Label() string  { return p.Nm }
func (p *c2SThin) Naming() string { return p.Nm }
func (*c2SThin) sealedA()         {}
func (*c2SThin) sealedB()         {}

type c02SealedCase struct {
	Plugins []string `json:"plugins"` // "fat" (three exported methods) / "thin" (two)
	Desc    bool     `json:"descending_order,omitempty"`
}

func c02Sealed(c *core.Ctx) {
	gen := func(yield func(c02SealedCase) bool) {
		for _, ps := range [][]string{{"fat"}, {"thin"}, {"fat", "thin"}, {"thin", "thin"}, {"fat", "fat"}, {"thin", "fat", "thin"}} {
			for _, desc := range []bool{false, true} {
				if !yield(c02SealedCase{ps, desc}) {
					return
				}
			}
		}
	}
	Cases(c, gen, func(c *core.Ctx, cs c02SealedCase) {
		host := &c2SHost{Nm: "host"}
		comps := []any{host}
		user := map[string]bool{"host": true}
		var want []string
		var backs []func() c2Sealed
		for i, k := range cs.Plugins {
			nm := fmt.Sprintf("p%d", i)
			user[nm] = true
			want = append(want, nm)
			if k == "fat" {
				p := &c2SPlugin{Nm: nm}
				comps, backs = append(comps, p), append(backs, func() c2Sealed { return p.Host })
			} else {
				p := &c2SThin{Nm: nm}
				comps, backs = append(comps, p), append(backs, func() c2Sealed { return p.Host })
			}
		}
		var base []string
		for k := range user {
			base = append(base, k)
		}
		sort.Strings(base)
		if cs.Desc {
			sort.Sort(sort.Reverse(sort.StringSlice(base)))
		}
		o := scen.Start(scen.StartSpec{Ch: envx.Fixed("", nil), Comps: comps, User: user, Base: base})
		c.S.Evaluations++
		c.S.Programs++
		c.S.States++
		c.S.Nontrivial++
		c.S.Transitions += int64(o.Trace.Calls)
		key := "C02/sealed/" + core.Hash(cs)
		desc := fmt.Sprintf("host <-> plugins %v through points typed with a sealed interface (3 methods, 2 of them unexported)", cs.Plugins)
		if !o.OK() {
			c.Outcome("sealed/start-failed")
			c.Report(key, "legal-graph-failed", desc+": start-up did not succeed: "+scen.FirstLine(o.Err)+o.Panic+o.Abort, cs)
			return
		}
		var got []string
		for _, p := range host.Plugins {
			if p == c2Sealed(host) {
				c.Outcome("sealed/self-injected")
				c.Report(key, "self-injected", desc+": the host's slice contains the host itself", cs)
				return
			}
			got = append(got, p.Label())
		}
		sort.Strings(got)
		switch {
		case fmt.Sprint(got) != fmt.Sprint(want):
			c.Outcome("sealed/slice-differs")
			c.Report(key, "point-not-populated", fmt.Sprintf("%s: the host's slice holds %v, want every plugin exactly once: %v", desc, got, want), cs)
			return
		case host.Peer == nil || host.Peer == c2Sealed(host):
			c.Outcome("sealed/single-differs")
			c.Report(key, "point-not-populated", desc+": the host's single-valued point is empty or holds the host itself", cs)
			return
		}
		for i, b := range backs {
			if b() != c2Sealed(host) {
				c.Outcome("sealed/back-edge")
				c.Report(key, "point-not-populated", fmt.Sprintf("%s: plugin p%d does not point back to the host", desc, i), cs)
				return
			}
		}
		c.Outcome(fmt.Sprintf("sealed/ok/plugins=%d", len(cs.Plugins)))
		c.Sample(map[string]any{"case": cs})
	})
}

// ---- a cycle next to a densely connected region that cannot reach back into it, entered through
// a point declared before the cycle-closing edge: start-up terminates (in about a millisecond)

type c2DHub struct {
	Peers   []*c2DPeer  `wire:""`
	Partner *c2DPartner `wire:""`
}
type c2DPartner struct {
	Hub *c2DHub `wire:""`
}
type c2DPeer struct {
	Nm    string
	Peers []*c2DPeer `wire:""`
}

func (p *c2DPeer) Naming() string { return p.Nm }

type c02DenseCase struct {
	Peers int  `json:"peers"`
	Desc  bool `json:"descending_order,omitempty"`
}

func c02Dense(c *core.Ctx) {
	gen := func(yield func(c02DenseCase) bool) {
		for _, k := range []int{2, 5, 9, 13, 17} {
			for _, desc := range []bool{false, true} {
				if !yield(c02DenseCase{k, desc}) {
					return
				}
			}
		}
	}
	Cases(c, gen, func(c *core.Ctx, cs c02DenseCase) {
		hub, partner := &c2DHub{}, &c2DPartner{}
		comps := []any{hub, partner}
		user := map[string]bool{}
		var base []string
		var peers []*c2DPeer
		for i := 0; i < cs.Peers; i++ {
			p := &c2DPeer{Nm: fmt.Sprintf("peer%02d", i)}
			peers = append(peers, p)
			comps = append(comps, p)
			user[p.Nm] = true
			base = append(base, p.Nm)
		}
		if cs.Desc {
			sort.Sort(sort.Reverse(sort.StringSlice(base)))
		}
		o := scen.Start(scen.StartSpec{Ch: envx.Fixed("", nil), Comps: comps, User: user, Base: base, MaxCalls: 400*(cs.Peers*cs.Peers+cs.Peers+4) + 40000})
		c.S.Evaluations++
		c.S.Programs++
		c.S.States++
		c.S.Nontrivial++
		c.S.Transitions += int64(o.Trace.Calls)
		key := "C02/dense/" + core.Hash(cs)
		desc := fmt.Sprintf("hub <-> partner cycle, the hub's slice of %d peers (each holding all the others) declared before the cycle-closing point", cs.Peers)
		switch {
		case !o.OK():
			c.Outcome("dense/start-failed")
			c.Report(key, "legal-graph-failed", desc+": start-up did not succeed: "+scen.FirstLine(o.Err)+o.Panic+o.Abort, cs)
		case len(hub.Peers) != cs.Peers || hub.Partner != partner || partner.Hub != hub:
			c.Outcome("dense/not-populated")
			c.Report(key, "point-not-populated", fmt.Sprintf("%s: the hub holds %d peers, partner wired: %v / %v", desc, len(hub.Peers), hub.Partner == partner, partner.Hub == hub), cs)
		default:
			for _, p := range peers {
				if len(p.Peers) != cs.Peers-1 {
					c.Outcome("dense/not-populated")
					c.Report(key, "point-not-populated", fmt.Sprintf("%s: %s holds %d of the %d other peers", desc, p.Nm, len(p.Peers), cs.Peers-1), cs)
					return
				}
			}
			c.Outcome(fmt.Sprintf("dense/ok/peers=%d", cs.Peers))
		}
		c.Sample(map[string]any{"case": cs, "registry_calls": o.Trace.Calls})
	})
}
