package props

import (
	"fmt"
	"reflect"

	"github.com/go-kid/ioc/container/processors"
	"github.com/go-kid/ioc/util/reflectx"

	"verif/internal/core"
	"verif/internal/envx"
	"verif/internal/scen"
)

// Look-ups under every name a caller might try for a component: the name it is registered under,
// the identifier of its type (which is its name only when it declares none), and near misses. A
// look-up either fails or answers the one object the holders have - it never makes a second copy
// or version of the component, and the component is initialised once.

type c1NI interface{ Who() string }

type c1Named struct {
	Nm    string
	Peer  c1NI `wire:",required=false,qualifier=peer"`
	Inits int
}

func (n *c1Named) Who() string    { return "named" }
func (n *c1Named) Naming() string { return n.Nm }
func (n *c1Named) Init() error    { n.Inits++; return nil }

type c1Default struct {
	Peer  c1NI `wire:",required=false,qualifier=peer"`
	Inits int
}

func (n *c1Default) Who() string { return "default" }
func (n *c1Default) Init() error { n.Inits++; return nil }

// a second named component of another type, so that identifiers of types stay unique per component
type c1Other struct {
	Nm    string
	Inits int
}

func (n *c1Other) Who() string       { return "other" }
func (n *c1Other) Naming() string    { return n.Nm }
func (n *c1Other) Qualifier() string { return "peer" }
func (n *c1Other) Init() error       { n.Inits++; return nil }

type c1NHolder struct {
	ByName c1NI   `wire:"svc,required=false"`
	ByType c1NI   `wire:",required=false,qualifier=none"`
	Ptr    any    `wire:"svc,required=false"`
	All    []c1NI `wire:""`
}

type c1NWrap struct {
	c1NI
	serial int
}

// c1NProc substitutes c1NI components after initialisation (mode 1) or at the early reference and
// after initialisation consistently (mode 2: the same wrapper both times).
type c1NProc struct {
	processors.DefaultInstantiationAwareComponentPostProcessor
	mode   int
	serial int
	made   map[any]*c1NWrap
}

func (p *c1NProc) Naming() string { return "zz-c1nproc" }
func (p *c1NProc) wrap(c any) any {
	n, ok := c.(c1NI)
	if !ok {
		return c
	}
	if _, isW := c.(*c1NWrap); isW {
		return c
	}
	if w := p.made[c]; w != nil && p.mode == 2 {
		return w
	}
	p.serial++
	w := &c1NWrap{n, p.serial}
	p.made[c] = w
	return w
}
func (p *c1NProc) GetEarlyBeanReference(c any, name string) (any, error) {
	if p.mode == 2 {
		return p.wrap(c), nil
	}
	return c, nil
}
func (p *c1NProc) PostProcessAfterInitialization(c any, name string) (any, error) {
	if p.mode == 0 {
		return c, nil
	}
	return p.wrap(c), nil
}

type c01NamesCase struct {
	Named bool `json:"declares_a_name"`
	Other bool `json:"another_named_component"`
	Wrap  int  `json:"substitution"` // 0 none, 1 after initialisation, 2 early and after, consistently
	Desc  bool `json:"descending_order,omitempty"`
}

func c01Names(c *core.Ctx) {
	gen := func(yield func(c01NamesCase) bool) {
		for _, named := range []bool{true, false} {
			for _, other := range []bool{false, true} {
				for wrap := 0; wrap <= 2; wrap++ {
					for _, desc := range []bool{false, true} {
						if !yield(c01NamesCase{named, other, wrap, desc}) {
							return
						}
					}
				}
			}
		}
	}
	Cases(c, gen, func(c *core.Ctx, cs c01NamesCase) {
		var svc any
		var inits func() int
		regName := "svc"
		if cs.Named {
			x := &c1Named{Nm: "svc"}
			svc, inits = x, func() int { return x.Inits }
		} else {
			x := &c1Default{}
			svc, inits = x, func() int { return x.Inits }
			regName = reflectx.Id(x)
		}
		h := &c1NHolder{}
		comps := []any{svc, h}
		user := map[string]bool{regName: true}
		var other *c1Other
		if cs.Other {
			other = &c1Other{Nm: "peer"}
			comps = append(comps, other)
			user["peer"] = true
		}
		comps = append(comps, &c1NProc{mode: cs.Wrap, made: map[any]*c1NWrap{}})
		var base []string
		if cs.Desc {
			base = []string{regName, "peer"}
			if regName < "peer" {
				base = []string{"peer", regName}
			}
		}
		typeID := reflectx.Id(svc)
		tries := []string{regName, typeID, "Svc", "svc ", " svc", "SVC", reflect.TypeOf(svc).Elem().Name(), reflect.TypeOf(svc).String(), "*" + typeID}
		type ans struct {
			name string
			v    any
			err  error
		}
		var answers []ans
		o := scen.Start(scen.StartSpec{Ch: envx.Fixed("", nil), Comps: comps, User: user, Base: base, After: func(o *scen.StartObs) {
			if o.Err != nil {
				return
			}
			for round := 0; round < 2; round++ {
				for _, nm := range tries {
					var v any
					var err error
					scen.Guard(func() { v, err = o.App.GetComponentByName(nm) })
					answers = append(answers, ans{nm, v, err})
				}
			}
		}})
		c.S.Evaluations++
		c.S.Programs++
		c.S.States++
		c.S.Nontrivial++
		c.S.Transitions += int64(o.Trace.Calls) + int64(len(answers))
		key := "C01/names/" + core.Hash(cs)
		desc := fmt.Sprintf("component of type %s registered under %q (substitution mode %d, another named component: %v)", reflect.TypeOf(svc), regName, cs.Wrap, cs.Other)
		if !o.OK() {
			c.Outcome("names/start-failed")
			c.Report(key, "start-failed", desc+": start-up did not succeed: "+scen.FirstLine(o.Err)+o.Panic+o.Abort, cs)
			return
		}
		// the one version: what the look-up under the registered name answers
		var published any
		for _, a := range answers {
			if a.name == regName && a.err == nil && a.v != nil {
				published = a.v
				break
			}
		}
		if published == nil {
			c.Outcome("names/lookup-failed")
			c.Report(key, "lookup-failed", desc+": the look-up under the registered name failed after a successful start", cs)
			return
		}
		same := func(v any) bool { return v == published }
		isSvc := func(v any) bool {
			if w, ok := v.(*c1NWrap); ok {
				v = w.c1NI
			}
			return v == svc
		}
		for _, a := range answers {
			if a.err != nil || a.v == nil {
				continue
			}
			if isSvc(a.v) && !same(a.v) {
				c.Outcome("names/second-version")
				c.Report(key, "second-version", fmt.Sprintf("%s: the look-up under %q answered %s, the look-up under the registered name %s", desc, a.name, c1Describe(a.v), c1Describe(published)), cs)
				return
			}
		}
		for fname, v := range map[string]any{"by-name point": h.ByName, "any-typed by-name point": h.Ptr} {
			if v != nil && !same(v) {
				c.Outcome("names/holder-differs")
				c.Report(key, "second-version", fmt.Sprintf("%s: the holder's %s has %s, the look-up under the registered name answers %s", desc, fname, c1Describe(v), c1Describe(published)), cs)
				return
			}
		}
		for _, v := range h.All {
			if isSvc(v) && !same(v) {
				c.Outcome("names/holder-differs")
				c.Report(key, "second-version", fmt.Sprintf("%s: the holder's slice has %s, the look-up under the registered name answers %s", desc, c1Describe(v), c1Describe(published)), cs)
				return
			}
		}
		if n := inits(); n != 1 {
			c.Outcome("names/initialised-again")
			c.Report(key, "second-version", fmt.Sprintf("%s: the component was initialised %d times by one start and %d look-ups", desc, n, len(answers)), cs)
			return
		}
		if other != nil && other.Inits != 1 {
			c.Outcome("names/initialised-again")
			c.Report(key, "second-version", fmt.Sprintf("%s: the other named component was initialised %d times", desc, other.Inits), cs)
			return
		}
		found := 0
		for _, a := range answers[:len(tries)] {
			if a.err == nil && a.v != nil {
				found++
			}
		}
		c.Outcome(fmt.Sprintf("names/one-version/answering-names=%d", found))
		c.Sample(map[string]any{"case": cs, "names_tried": tries, "names_answering": found})
	})
}

func c1Describe(v any) string {
	if w, ok := v.(*c1NWrap); ok {
		return fmt.Sprintf("substitute #%d (%p)", w.serial, w)
	}
	return fmt.Sprintf("%T (%p)", v, v)
}
