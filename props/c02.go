package props

import (
	"fmt"

	"verif/internal/core"
	"verif/internal/envx"
	"verif/internal/scen"
)

func init() {
	register(&Driver{
		ID:              "C02",
		HangIsViolation: true,
		Technique:       "exhaustive enumeration of labelled dependency digraphs (all graphs for n<=3, structured families up to 256 nodes), each executed as a real container start under a harness-owned iteration order; reference-model oracle + call/nesting budgets for termination",
		Rule:            "programs = labelled digraphs over universal nodes (edge kinds: none / required by-name / optional by-name / slice member; self loops included) x base iteration orders; plus typed cycles: <=3 components implementing one interface, each holding a single-valued by-type point of that interface (required or optional; primary / named / default-named), with 0-2 holders of the same point that do not implement it (created first / last), ascending and descending order and every single order deviation; non-trivial = contains a cycle, a self loop or a fan-in >= 2; distinct = distinct (graph, order) pairs. Families added in later rounds (look-ups inside Init, retries after an abandoned attempt, user extension points at every Order, several containers, odd names / types / values) are listed per part in this file and described in MANIFEST.json (level_claimed.text) and DESIGN §7",
		Assumptions: []string{
			"graphs beyond the enumerated sizes and families are not covered",
			"post-processors do not substitute components in this family (C03 covers substitution)",
			"termination is decided by registry-call and nesting budgets computed from the program, not by a clock",
		},
		Parts: []Part{
			{Name: "graphs", Run: c02Run, QuickS: 240, ThoroughS: 1200},
			{Name: "typed-cycles", Run: c02Typed, QuickS: 90, ThoroughS: 600},
			{Name: "sealed-interface-cycles", Run: c02Sealed, Workers: 2, QuickS: 30, ThoroughS: 60},
			{Name: "dense-dead-end", Run: c02Dense, Workers: 2, QuickS: 60, ThoroughS: 120},
		},
	})
}

type c02Case struct {
	scen.GraphProg
}

func c02Gen(c *core.Ctx) func(yield func(c02Case) bool) {
	return func(yield func(c02Case) bool) {
		sliceOpt := false
		emit := func(family string, n int, e [][]int) bool {
			for _, desc := range []bool{false, true} {
				p := scen.GraphProg{N: n, Edges: e, Family: family, Kinds: "", SliceOpt: sliceOpt}
				if desc {
					p.Base = make([]int, n)
					for i := range p.Base {
						p.Base[i] = n - 1 - i
					}
				}
				if !yield(c02Case{p}) {
					return false
				}
			}
			return true
		}
		full := []int{scen.ENone, scen.EName, scen.ENameOpt, scen.ESlice}
		for n := 1; n <= 3; n++ {
			ok := true
			allGraphs(n, full, true, func(e [][]int) bool { ok = emit(fmt.Sprintf("all-n%d", n), n, e); return ok })
			if !ok {
				return
			}
		}
		// the same with optional slices (a slice without members stays empty instead of failing)
		sliceOpt = true
		for n := 1; n <= 3; n++ {
			ok := true
			allGraphs(n, []int{scen.ENone, scen.EName, scen.ESlice}, true, func(e [][]int) bool {
				ok = emit(fmt.Sprintf("optslice-n%d", n), n, e)
				return ok
			})
			if !ok {
				return
			}
		}
		sliceOpt = false
		// doubled edges: one target through a single-valued point and a slice of the same holder
		{
			ok := true
			allGraphs(3, []int{scen.ENone, scen.EName, scen.EBoth}, false, func(e [][]int) bool {
				any := false
				for i := range e {
					for _, k := range e[i] {
						any = any || k == scen.EBoth
					}
				}
				if any {
					ok = emit("doubled-n3", 3, e)
				}
				return ok
			})
			if !ok {
				return
			}
		}
		// programmatic look-ups during initialisation: node i looks node j up inside its Init (the
		// only outgoing "edge" of i may be such a look-up), eager and lazy targets
		var lookups [][][]int // one look-up, or two (possibly facing each other)
		for i := 0; i < 3; i++ {
			for j := 0; j < 3; j++ {
				if i != j {
					lookups = append(lookups, [][]int{{i, j}})
				}
			}
		}
		for a := 0; a < 6; a++ {
			for b := a + 1; b < 6; b++ {
				lookups = append(lookups, [][]int{lookups[a][0], lookups[b][0]})
			}
		}
		for _, lz := range []int{0, 2, 4, 6} {
			ok := true
			allGraphs(3, []int{scen.ENone, scen.EName}, false, func(e [][]int) bool {
				for _, lk := range lookups {
					for _, desc := range []bool{false, true} {
						p := scen.GraphProg{N: 3, Edges: e, Lazy: []bool{false, lz&2 == 2, lz&4 == 4}, InitLookup: lk, Family: "initlookup-n3"}
						if desc {
							p.Base = []int{2, 1, 0}
						}
						if ok = yield(c02Case{p}); !ok {
							return false
						}
					}
				}
				return true
			})
			if !ok {
				return
			}
		}
		// structured families, run completely
		cyc := func(k, stride int, kind int) [][]int {
			e := mkEdges(k)
			for i := 0; i < k; i++ {
				e[i][(i+stride)%k] = kind
			}
			return e
		}
		ks := []int{2, 3, 4, 5, 6, 7, 8, 32, 100}
		if c.Thorough() {
			ks = []int{2, 3, 4, 5, 6, 7, 8, 9, 10, 11, 12, 13, 14, 15, 16, 32, 64, 128, 256}
		}
		for _, k := range ks {
			for stride := 1; stride < k; stride++ {
				if gcd(stride, k) != 1 || (k > 16 && stride != 1 && stride != k-1) {
					continue
				}
				for _, kind := range []int{scen.EName, scen.ESlice, scen.EPtr} {
					if !emit(fmt.Sprintf("cycle-%d", k), k, cyc(k, stride, kind)) {
						return
					}
				}
			}
		}
		maxK := 5
		if c.Thorough() {
			maxK = 7
		}
		for n := 2; n <= maxK; n++ { // complete digraphs
			for _, kind := range []int{scen.EName, scen.ESlice} {
				e := mkEdges(n)
				for i := 0; i < n; i++ {
					for j := 0; j < n; j++ {
						if i != j {
							e[i][j] = kind
						}
					}
				}
				if n > 6 && kind == scen.EName {
					continue // the universal node has six single slots
				}
				if !emit(fmt.Sprintf("complete-%d", n), n, e) {
					return
				}
			}
		}
		ms := []int{2, 4, 8}
		if c.Thorough() {
			ms = []int{2, 4, 8, 16, 32, 64}
		}
		for _, m := range ms { // chains of overlapping 2-cycles
			e := mkEdges(m + 1)
			for i := 0; i < m; i++ {
				e[i][i+1], e[i+1][i] = scen.EName, scen.EName
			}
			if !emit(fmt.Sprintf("2cycle-chain-%d", m), m+1, e) {
				return
			}
		}
		// wheels: a hub that collects the whole rim through its slice, the rim is a cycle and
		// every rim node points back to the hub; ladders of 2-cycles with rungs
		for _, k := range []int{3, 5, 12, 40} {
			e := mkEdges(k + 1)
			for i := 1; i <= k; i++ {
				e[0][i] = scen.ESlice
				e[i][1+i%k] = scen.EName
				e[i][0] = scen.EPtr
			}
			if !emit(fmt.Sprintf("wheel-%d", k), k+1, e) {
				return
			}
		}
		for _, k := range []int{2, 6, 30} {
			e := mkEdges(2 * k)
			for i := 0; i < k; i++ {
				e[i][k+i], e[k+i][i] = scen.EName, scen.ESlice // rung, both ways
				if i+1 < k {
					e[i][i+1], e[k+i+1][k+i] = scen.EPtr, scen.EName // rails in opposite directions
				}
			}
			if !emit(fmt.Sprintf("ladder-%d", k), 2*k, e) {
				return
			}
		}
		if c.Thorough() {
			n4 := []int{scen.ENone, scen.EName, scen.ESlice}
			ok := true
			allGraphs(4, n4, false, func(e [][]int) bool { ok = emit("all-n4", 4, e); return ok })
			if !ok {
				return
			}
			allGraphs(5, []int{scen.ENone, scen.EName}, false, func(e [][]int) bool { ok = emit("all-n5", 5, e); return ok })
		}
	}
}

func mkEdges(n int) [][]int {
	e := make([][]int, n)
	for i := range e {
		e[i] = make([]int, n)
	}
	return e
}

func gcd(a, b int) int {
	for b != 0 {
		a, b = b, a%b
	}
	return a
}

func c02Run(c *core.Ctx) {
	first := true
	Cases(c, c02Gen(c), func(c *core.Ctx, cs c02Case) {
		p := &cs.GraphProg
		ref := refGraph(p)
		o := scen.RunGraph(p, envx.Fixed("", nil))
		if first && c.ReplayCase == nil {
			// determinism: the first execution is replayed and must give identical observations
			first = false
			o2 := scen.RunGraph(p, envx.Fixed("", nil))
			if graphSig(o) != graphSig(o2) || fmt.Sprint(o.RT.Log) != fmt.Sprint(o2.RT.Log) {
				panic(envx.Divergence{Msg: "two runs of the same program differ"})
			}
			c.S.DeterminismOK = true
		}
		c.S.Evaluations++
		c.S.Programs++
		c.S.States++
		c.S.Transitions += int64(o.Trace.Calls)
		if nontrivialGraph(p) {
			c.S.Nontrivial++
		}
		c.Outcome(p.Family + "/" + graphSig(o))
		c.Sample(map[string]any{"program": p, "outcome": graphSig(o), "registry_calls": o.Trace.Calls, "peak_nesting": o.Trace.PeakDepth})
		key := func(kind string) string {
			return "C02/" + kind + "/" + core.Hash(p.N, p.Edges, p.Base, p.SliceOpt, p.Lazy, p.InitLookup)
		}
		switch {
		case o.Abort != "":
			c.Report(key("nonterm"), "non-termination", "start-up exceeded its budget: "+o.Abort, cs)
		case o.Panic != "":
			c.Report(key("panic"), "panic", "panic escaped Run: "+o.Panic, cs)
		case len(o.ChildPanics) > 0:
			c.Report(key("gopanic"), "panic", "panic in a spawned goroutine: "+o.ChildPanics[0], cs)
		case ref.mustError && o.Err == nil:
			c.Report(key("noerror"), "missing-error", "start-up succeeded although "+ref.why, cs)
		case !ref.mustError && o.Err != nil:
			c.Report(key("spurious"), "spurious-failure", "start-up failed on a satisfiable graph: "+scen.FirstLine(o.Err), cs)
		case o.Err == nil:
			if bad := checkWiring(o, ref, false); len(bad) > 0 {
				c.Report(key("wiring"), "wrong-wiring", bad[0], cs)
			}
		}
	})
}
