package props

import (
	"fmt"

	cd "github.com/go-kid/ioc/component_definition"
	"github.com/go-kid/ioc/container/processors"

	"verif/internal/core"
	"verif/internal/envx"
	"verif/internal/scen"
)

// User post-processors marked LazyInit, of every callback class, with an injection point of their
// own (a LazyInit component) and init methods: like every LazyInit component they are initialised
// only if an eagerly created component needs them, and then exactly once - and the lazy component
// only they need follows them.

type c5Counts struct{ Aps, Inits int }

func (c *c5Counts) AfterPropertiesSet() error { c.Aps++; return nil }
func (c *c5Counts) Init() error               { c.Inits++; return nil }

type c5LazyDep struct{ c5Counts }

func (*c5LazyDep) LazyInit()        {}
func (*c5LazyDep) Naming() string   { return "lp-dep" }
func (*c5LazyDep) Describe() string { return "dep" }

// plain component post-processor
type c5LPPlain struct {
	processors.DefaultComponentPostProcessor
	c5Counts
	Dep *c5LazyDep `wire:""`
}

func (*c5LPPlain) LazyInit()      {}
func (*c5LPPlain) Naming() string { return "lp-proc" }

// instantiation-aware post-processor
type c5LPInst struct {
	processors.DefaultInstantiationAwareComponentPostProcessor
	c5Counts
	Dep *c5LazyDep `wire:""`
}

func (*c5LPInst) LazyInit()      {}
func (*c5LPInst) Naming() string { return "lp-proc" }

// instantiation-aware and ordered
type c5LPInstOrdered struct {
	c5LPInst
	o int
}

func (p *c5LPInstOrdered) Order() int { return p.o }

// instantiation-aware with a properties callback that answers nothing
type c5LPProps struct{ c5LPInst }

func (*c5LPProps) PostProcessProperties(ps []*cd.Property, c any, n string) ([]*cd.Property, error) {
	return nil, nil
}

type c5LPNeeder struct {
	P any `wire:"lp-proc"`
}

type c5LPBystander struct{ c5Counts }

func (*c5LPBystander) Naming() string { return "bystander" }

type c5LazyProcCase struct {
	Kind   string `json:"processor"` // plain inst inst-ordered props
	Order  int    `json:"order,omitempty"`
	Needed bool   `json:"an_eager_component_wires_it"`
	Lookup bool   `json:"looked_up_after_the_start"`
}

func c05LazyProc(c *core.Ctx) {
	gen := func(yield func(c5LazyProcCase) bool) {
		for _, kind := range []string{"plain", "inst", "props", "inst-ordered"} {
			orders := []int{0}
			if kind == "inst-ordered" {
				orders = []int{-5, 3, 1000}
			}
			for _, ord := range orders {
				for _, needed := range []bool{false, true} {
					for _, lookup := range []bool{false, true} {
						if !yield(c5LazyProcCase{kind, ord, needed, lookup}) {
							return
						}
					}
				}
			}
		}
	}
	Cases(c, gen, func(c *core.Ctx, cs c5LazyProcCase) {
		dep := &c5LazyDep{}
		var proc any
		var counts *c5Counts
		var wired func() *c5LazyDep
		switch cs.Kind {
		case "plain":
			p := &c5LPPlain{}
			proc, counts, wired = p, &p.c5Counts, func() *c5LazyDep { return p.Dep }
		case "inst":
			p := &c5LPInst{}
			proc, counts, wired = p, &p.c5Counts, func() *c5LazyDep { return p.Dep }
		case "props":
			p := &c5LPProps{}
			proc, counts, wired = p, &p.c5Counts, func() *c5LazyDep { return p.Dep }
		default:
			p := &c5LPInstOrdered{o: cs.Order}
			proc, counts, wired = p, &p.c5Counts, func() *c5LazyDep { return p.Dep }
		}
		by := &c5LPBystander{}
		comps := []any{dep, proc, by}
		if cs.Needed {
			comps = append(comps, &c5LPNeeder{})
		}
		var atReturn, depAtReturn c5Counts
		o := scen.Start(scen.StartSpec{Ch: envx.Fixed("", nil), Comps: comps, After: func(o *scen.StartObs) {
			atReturn, depAtReturn = *counts, dep.c5Counts
			if o.Err == nil && cs.Lookup {
				for i := 0; i < 2; i++ {
					scen.Guard(func() { o.App.GetComponentByName("lp-proc") })
				}
			}
		}})
		c.S.Evaluations++
		c.S.Programs++
		c.S.States++
		c.S.Nontrivial++
		c.S.Transitions += int64(o.Trace.Calls)
		key := "C05/lazy-processor/" + core.Hash(cs)
		desc := fmt.Sprintf("a LazyInit user post-processor (%s, Order %d) with a point to a LazyInit component; an eager component wires it: %v", cs.Kind, cs.Order, cs.Needed)
		if !o.OK() {
			c.Outcome("lazyproc/start-failed")
			c.Report(key, "start-failed", desc+": start-up did not succeed: "+scen.FirstLine(o.Err)+o.Panic+o.Abort, cs)
			return
		}
		want := 0
		if cs.Needed {
			want = 1
		}
		switch {
		case atReturn.Inits != want || atReturn.Aps != want:
			c.Outcome("lazyproc/initialised-unneeded")
			c.Report(key, "lazy-initialised", fmt.Sprintf("%s: when Run returned it had completed AfterPropertiesSet %d and Init %d times, want %d", desc, atReturn.Aps, atReturn.Inits, want), cs)
		case depAtReturn.Inits != want || depAtReturn.Aps != want:
			c.Outcome("lazyproc/dependency-initialised-unneeded")
			c.Report(key, "lazy-initialised", fmt.Sprintf("%s: the LazyInit component only the processor needs had completed AfterPropertiesSet %d and Init %d times when Run returned, want %d", desc, depAtReturn.Aps, depAtReturn.Inits, want), cs)
		case by.Inits != 1 || by.Aps != 1:
			c.Outcome("lazyproc/bystander")
			c.Report(key, "not-exactly-once", fmt.Sprintf("%s: an ordinary eager component completed AfterPropertiesSet %d and Init %d times", desc, by.Aps, by.Inits), cs)
		case cs.Needed && wired() != dep:
			c.Outcome("lazyproc/not-populated")
			c.Report(key, "wrong-wiring", desc+": the processor was created for the eager component but its own point is not populated", cs)
		case (cs.Needed || cs.Lookup) && (counts.Inits != 1 || counts.Aps != 1 || dep.Inits != 1 || dep.Aps != 1):
			c.Outcome("lazyproc/not-once-on-demand")
			c.Report(key, "not-exactly-once", fmt.Sprintf("%s: after the start and %v look-ups the processor completed Init %d times, its dependency %d times, want once each", desc, cs.Lookup, counts.Inits, dep.Inits), cs)
		default:
			c.Outcome(fmt.Sprintf("lazyproc/%s/needed=%v", cs.Kind, cs.Needed))
		}
		c.Sample(map[string]any{"case": cs, "at_return": atReturn})
	})
}

// ---- an init method that panics half-way: the component has not completed its initialisation,
// so a start that reports success (with dependents initialised on top of it) is a lifecycle
// violation; the panic escaping Run, or an error, both are fine here

type c5PanicDep struct {
	where string // "aps" or "init"
	Aps   int
	Done  bool
}

func (d *c5PanicDep) Naming() string { return "pdep" }
func (d *c5PanicDep) AfterPropertiesSet() error {
	d.Aps++
	if d.where == "aps" {
		panic("AfterPropertiesSet panics half-way")
	}
	return nil
}
func (d *c5PanicDep) Init() error {
	if d.where == "init" {
		panic("Init panics half-way")
	}
	d.Done = true
	return nil
}

type c5PanicLazyDep struct{ c5PanicDep }

func (*c5PanicLazyDep) LazyInit() {}

type c5PanicUser struct {
	Dep   any `wire:"pdep"`
	Inits int
}

func (u *c5PanicUser) Naming() string { return "puser" }
func (u *c5PanicUser) Init() error    { u.Inits++; return nil }

type c5PanicCase struct {
	Where string `json:"panics_in"`
	Lazy  bool   `json:"lazy_dependency"`
	Desc  bool   `json:"descending_order,omitempty"`
}

func c05PanicInit(c *core.Ctx) {
	gen := func(yield func(c5PanicCase) bool) {
		for _, w := range []string{"aps", "init"} {
			for _, lazy := range []bool{false, true} {
				for _, desc := range []bool{false, true} {
					if !yield(c5PanicCase{w, lazy, desc}) {
						return
					}
				}
			}
		}
	}
	Cases(c, gen, func(c *core.Ctx, cs c5PanicCase) {
		user := &c5PanicUser{}
		var dep any
		var d *c5PanicDep
		if cs.Lazy {
			x := &c5PanicLazyDep{c5PanicDep{where: cs.Where}}
			dep, d = x, &x.c5PanicDep
		} else {
			x := &c5PanicDep{where: cs.Where}
			dep, d = x, x
		}
		var base []string
		if cs.Desc {
			base = []string{"puser", "pdep"}
		}
		o := scen.Start(scen.StartSpec{Ch: envx.Fixed("", nil), Comps: []any{dep, user}, User: map[string]bool{"pdep": true, "puser": true}, Base: base})
		c.S.Evaluations++
		c.S.Programs++
		c.S.States++
		c.S.Nontrivial++
		c.S.Transitions += int64(o.Trace.Calls)
		key := "C05/panicking-init/" + core.Hash(cs)
		switch {
		case o.Abort != "":
			c.Outcome("panic-init/hang")
			c.Report(key, "non-termination", fmt.Sprintf("a dependency whose %s panics: %s", cs.Where, o.Abort), cs)
		case o.OK():
			c.Outcome("panic-init/start-succeeded")
			c.Report(key, "incomplete-dependency", fmt.Sprintf("a dependency's %s panicked half-way (it never completed its initialisation: done=%v), yet Run returned nil and the dependent's Init ran %d time(s)", cs.Where, d.Done, user.Inits), cs)
		case user.Inits != 0:
			c.Outcome("panic-init/dependent-initialised")
			c.Report(key, "incomplete-dependency", fmt.Sprintf("a dependency's %s panicked half-way, and the dependent's Init ran %d time(s) on top of it", cs.Where, user.Inits), cs)
		default:
			c.Outcome("panic-init/start-does-not-succeed")
		}
		c.Sample(map[string]any{"case": cs, "panic": o.Panic != "", "error": scen.FirstLine(o.Err)})
	})
}
