package props

import (
	"fmt"
	"strings"

	"verif/internal/core"
	"verif/internal/envx"
	"verif/internal/scen"
)

// A failed attempt and a retry inside one start: node i looks a lazy node j up inside its Init
// and ignores the error (a best-effort warm-up); every reached callback fails once (single
// fault). When the start succeeds nevertheless, everything published must have completed its
// initialisation, and dependencies first.

func c05RetryGen(c *core.Ctx) func(yield func(c05Case) bool) {
	return func(yield func(c05Case) bool) {
		ok := true
		allGraphs(3, []int{scen.ENone, scen.EName, scen.ESlice}, false, func(e [][]int) bool {
			for _, lz := range []int{2, 4, 6} {
				lazy := []bool{false, lz&2 == 2, lz&4 == 4}
				for i := 0; i < 3; i++ {
					for j := 1; j < 3; j++ {
						if i == j || !lazy[j] {
							continue
						}
						for _, desc := range []bool{false, true} {
							p := scen.GraphProg{N: 3, Edges: e, Lazy: lazy, Obs: 1, Config: true, Family: "n3-retry", InitLookup: [][]int{{i, j}},
								SwallowLookup: true, Faults: true, Kinds: "F"}
							if desc {
								p.Base = []int{2, 1, 0}
							}
							if ok = yield(c05Case{p, 1}); !ok {
								return false
							}
						}
					}
				}
			}
			return true
		})
	}
}

func c05Retry(c *core.Ctx) {
	Cases(c, c05RetryGen(c), func(c *core.Ctx, cs c05Case) {
		p := &cs.GraphProg
		body := func(ch *envx.Chooser) {
			o := scen.RunGraph(p, ch)
			c.S.Evaluations++
			c.S.States++
			c.S.Transitions += int64(o.Trace.Calls) + int64(len(ch.Pts)) + int64(len(o.RT.Log))
			cc := cs
			cc.Choices = ch.Choices()
			key := func(kind string) string {
				return "C05/retry-" + kind + "/" + core.Hash(p.N, p.Edges, p.Base, p.Lazy, p.InitLookup, cc.Choices)
			}
			armed := strings.Join(o.RT.Armed, ",")
			if !o.OK() {
				c.Outcome("n3-retry/start-failed")
				return // C09 decides how a start has to fail
			}
			c.Outcome("n3-retry/started/armed=" + fmt.Sprint(len(o.RT.Armed)))
			// look every node up (the armed fault is spent: a creation that was abandoned may be retried)
			published := make([]bool, p.N)
			scen.Guard(func() {
				for t := 0; t < p.N; t++ {
					if v, err := o.App.GetComponentByName(scen.Name(t, p.N)); err == nil && v != nil {
						published[t] = true
					}
				}
			})
			log := o.RT.Log
			done := map[string][]int{}
			for i, e := range log {
				if strings.HasPrefix(e, "init-done:") {
					nm := strings.TrimPrefix(e, "init-done:")
					done[nm] = append(done[nm], i)
				}
			}
			for t := 0; t < p.N; t++ {
				nm := scen.Name(t, p.N)
				// (an abandoned attempt may have completed Init before it failed in a later callback:
				// the retry goes through the lifecycle again, so one completion per abandoned
				// attempt is allowed on top of the final one)
				switch {
				case len(done[nm]) > 1+o.Trace.Failures(nm):
					c.Report(key("twice"), "lifecycle-sequence", fmt.Sprintf("fault at [%s]: Init of %s completed %d times although only %d creation attempt(s) of it were abandoned; log=%s", armed, nm, len(done[nm]), o.Trace.Failures(nm), strings.Join(log, " ")), cc)
					return
				case published[t] && len(done[nm]) == 0:
					c.Report(key("uninitialised"), "lifecycle-sequence", fmt.Sprintf("fault at [%s] (first attempt abandoned, error ignored by the caller): %s is published although its Init never completed; log=%s", armed, nm, strings.Join(log, " ")), cc)
					return
				}
			}
			// what a retry wires is what a first attempt would have wired: every point its target,
			// every slice member exactly once
			all := true
			for _, pb := range published {
				all = all && pb
			}
			if all {
				ref := refGraph(p)
				for i := range ref.created {
					ref.created[i] = true
				}
				if bad := checkWiring(o, ref, false); len(bad) > 0 {
					c.Report(key("wiring"), "wrong-wiring", fmt.Sprintf("fault at [%s] (attempt abandoned, error ignored, creation retried): %s; log=%s", armed, bad[0], strings.Join(log, " ")), cc)
					return
				}
			}
			for i := 0; i < p.N; i++ {
				ni := scen.Name(i, p.N)
				if len(done[ni]) == 0 {
					continue
				}
				for j := 0; j < p.N; j++ {
					if j == i || p.Edges[i][j] == 0 || reaches(p, j, i) {
						continue
					}
					nj := scen.Name(j, p.N)
					if len(done[nj]) == 0 || done[nj][0] > done[ni][len(done[ni])-1] {
						c.Report(key("deporder"), "dependency-order", fmt.Sprintf("fault at [%s]: Init of %s completed before the Init of its dependency %s had completed; log=%s", armed, ni, nj, strings.Join(log, " ")), cc)
						return
					}
				}
			}
		}
		if c.ReplayCase != nil {
			body(envx.Fixed(p.Kinds, cs.Choices))
			return
		}
		c.S.Programs++
		c.S.Nontrivial++
		st := envx.Explore(envx.Options{Kinds: p.Kinds, Bound: cs.Bound, Stop: c.Expired}, body)
		if st.Truncated {
			c.Cap("exploration of a program truncated by the budget")
		}
		if c.S.Programs%50 == 1 {
			c.Sample(map[string]any{"program": p, "executions": st.Execs})
		}
	})
}
