package props

import (
	"fmt"
	"reflect"
	"sort"
	"strconv"
	"strings"

	"github.com/go-kid/ioc/app"
	"github.com/go-kid/ioc/configure/loader"
	"gopkg.in/yaml.v3"

	"verif/internal/core"
	"verif/internal/envx"
	"verif/internal/scen"
)

func init() {
	register(&Driver{
		ID:        "C17",
		Technique: "exhaustive enumeration of a value x field-type x binding-path matrix (same-kind pairs), one reflect.StructOf holder and one real start per cell; oracle: prefix path = strict YAML decoding of the value into the field type, value / prop paths = their prefix twin, literal = as written",
		Rule:      "values = integers {0,1,-1,2^31,2^53+1,MaxInt64}, floats {1.5,0.1,2.0,1e21}, booleans, 19 strings (plain, number-like, boolean-like, quoted, bracketed, map-like, JSON-like, empty, padded, with , = : }), lists (strings, ints, number-like strings), maps; field types {string,*string,int,int64,uint8,float64,bool,[]string,[]int,map[string]any,map[string]string,struct,*struct,any}; paths {prefix, value:\"${k}\", prop:\"k\", the same two with a default although the key is configured, literal in value}; only same-kind (value, type) pairs; non-trivial = value whose text form differs from its typed form (number-like / boolean-like / quoted / bracketed strings, big integers, floats, containers). Families added in later rounds (look-ups inside Init, retries after an abandoned attempt, user extension points at every Order, several containers, odd names / types / values) are listed per part in this file and described in MANIFEST.json (level_claimed.text) and DESIGN §7",
		Assumptions: []string{
			"cross-kind pairs (e.g. bool into string) are outside the property",
			"for any / map[string]any targets numbers are compared by value (3 and 3.0 are the same result)",
			"literals containing a top-level comma or an empty literal are tag-grammar matters (C19), not values",
		},
		Parts: []Part{
			{Name: "matrix", Run: c17Run, Workers: 8, QuickS: 60, ThoroughS: 300},
			{Name: "strings", Run: c17Strings, QuickS: 60, ThoroughS: 900},
			{Name: "siblings", Run: c17Siblings, Workers: 2, QuickS: 30, ThoroughS: 60},
			{Name: "containers", Run: c17Apps, Workers: 4, QuickS: 30, ThoroughS: 60},
			{Name: "aliasing", Run: c17Alias, Workers: 1, QuickS: 30, ThoroughS: 30},
		},
	})
}

type c17S struct {
	A string `yaml:"a"`
	N int    `yaml:"n"`
}

// a configuration struct that embeds another struct by value: the embedded part is configured
// under its own key
type C17Inner struct {
	X string `yaml:"x"`
	N int    `yaml:"n"`
}
type c17Emb struct {
	C17Inner `yaml:"inner"`
	A        string `yaml:"a"`
}

// configuration-properties types: an untagged field of such a type is bound by the prefix its
// Prefix() method names
type c17CPm c17S

func (c17CPm) Prefix() string { return "m" }

type c17CPms c17S

func (*c17CPms) Prefix() string { return "ms" }

var c17Vals = map[string]any{
	"i0": 0, "i1": 1, "im1": -1, "i31": 1 << 31, "i53": (1 << 53) + 1, "imax": int64(9223372036854775807),
	"f15": 1.5, "f01": 0.1, "f1e21": 1e21, "f2": 2.0,
	"bt": true, "bf": false,
	"sabc": "abc", "ssp": "a b", "s110": "1.10", "s007": "007", "splus": "+5", "s1e3": "1e3", "sTRUE": "TRUE", "sfalse": "false",
	"sq1": "'x'", "sq2": "\"x\"", "sbr": "[a,b]", "smap": "map[a:b]", "sjson": "{\"a\":1}", "sempty": "", "spad": " x ", "scomma": "a,b", "seq": "a=b", "scolon": "a:b", "sph": "x}y",
	"lbig": []any{(1 << 53) + 1, 1}, "mbig": map[string]any{"a": "x", "n": (1 << 53) + 1},
	"ls": []any{"a", "b"}, "li": []any{1, 2}, "lmix": []any{"1.10", "x"},
	"m": map[string]any{"a": "x", "n": 3}, "ms": map[string]any{"a": "1.10", "n": 7}, "mss": map[string]any{"a": "x", "b": "1.10"},
	// keys containing the path separator, nested maps, an empty nested map
	"memb": map[string]any{"a": "x", "inner": map[string]any{"x": "1.10", "n": 2}},
	"mdot": map[string]any{"a.b": "x", "c": "y"}, "mnest": map[string]any{"in": map[string]any{"x": "1"}, "e": map[string]any{}, "s": "t"},
}

// defined types over a string / an integer kind: bound like their underlying kind
type c17Str string
type c17I64 int64

var c17Types = map[string]reflect.Type{
	"embstruct": reflect.TypeOf(c17Emb{}), "pembstruct": reflect.TypeOf(&c17Emb{}),
	"nstring": reflect.TypeOf(c17Str("")), "pnstring": reflect.TypeOf((*c17Str)(nil)), "nint64": reflect.TypeOf(c17I64(0)),
	"string": reflect.TypeOf(""), "pstring": reflect.TypeOf((*string)(nil)), "int": reflect.TypeOf(0), "int64": reflect.TypeOf(int64(0)),
	"uint8": reflect.TypeOf(uint8(0)), "float64": reflect.TypeOf(0.0), "bool": reflect.TypeOf(false),
	"strs": reflect.TypeOf([]string{}), "ints": reflect.TypeOf([]int{}), "mapany": reflect.TypeOf(map[string]any{}),
	"mapstr": reflect.TypeOf(map[string]string{}), "struct": reflect.TypeOf(c17S{}), "pstruct": reflect.TypeOf(&c17S{}), "any": reflect.TypeOf((*any)(nil)).Elem(),
}

// c17Compatible: same-kind pairs only.
func c17Compatible(vk, tn string) bool {
	v := c17Vals[vk]
	switch x := v.(type) {
	case string:
		return tn == "string" || tn == "pstring" || tn == "any" || tn == "nstring" || tn == "pnstring"
	case int, int64:
		n := reflect.ValueOf(x).Int()
		switch tn {
		case "int", "int64", "any", "nint64":
			return true
		case "uint8":
			return n >= 0 && n <= 255
		}
	case float64:
		return tn == "float64" || tn == "any"
	case bool:
		return tn == "bool" || tn == "any"
	case []any:
		if vk == "li" || vk == "lbig" {
			return tn == "ints" || tn == "any"
		}
		return tn == "strs" || tn == "any"
	case map[string]any:
		if vk == "mss" || vk == "mdot" {
			return tn == "mapstr" || tn == "mapany" || tn == "any"
		}
		if vk == "mnest" {
			return tn == "mapany" || tn == "any"
		}
		if vk == "memb" {
			return tn == "mapany" || tn == "any" || tn == "embstruct" || tn == "pembstruct"
		}
		return tn == "mapany" || tn == "struct" || tn == "pstruct" || tn == "any"
	}
	return false
}

// c17Preset is stale content the field holds before start-up (a component built with preset
// values): binding must give exactly the configured value, not a merge with what was there.
func c17Preset(tn string) any {
	switch tn {
	case "strs":
		return []string{"stale0", "stale1", "stale2", "stale3"}
	case "ints":
		return []int{90, 91, 92, 93}
	case "mapany":
		return map[string]any{"stale": "x", "a": "old"}
	case "mapstr":
		return map[string]string{"stale": "x", "a": "old"}
	case "struct":
		return c17S{A: "old", N: 99}
	case "pstruct":
		return &c17S{A: "old", N: 99}
	}
	return nil
}

// c17Default is a default text of the field's kind that differs from every configured value.
func c17Default(tn string) string {
	switch tn {
	case "string", "pstring", "any", "nstring", "pnstring":
		return "dflt"
	case "int", "int64", "uint8", "nint64":
		return "77"
	case "float64":
		return "9.5"
	case "bool":
		return "maybe" // not a boolean: must never be looked at when the key is configured
	}
	return ""
}

type c17Case struct {
	Val  string `json:"value_key"`
	Type string `json:"field_type"`
	Path string `json:"path"` // prefix value prop literal
}

// c17Norm makes numbers comparable by value inside any / map[string]any results.
func c17Norm(v any) any {
	rv := reflect.ValueOf(v)
	if !rv.IsValid() {
		return nil
	}
	switch rv.Kind() {
	case reflect.Pointer:
		if rv.IsNil() {
			return nil
		}
		return c17Norm(rv.Elem().Interface())
	case reflect.Int, reflect.Int8, reflect.Int16, reflect.Int32, reflect.Int64:
		return "num:" + strconv.FormatInt(rv.Int(), 10)
	case reflect.Uint, reflect.Uint8, reflect.Uint16, reflect.Uint32, reflect.Uint64:
		return "num:" + strconv.FormatUint(rv.Uint(), 10)
	case reflect.Float32, reflect.Float64:
		f := rv.Float()
		if f == float64(int64(f)) && f < 9e18 && f > -9e18 {
			return "num:" + strconv.FormatInt(int64(f), 10)
		}
		return "num:" + strconv.FormatFloat(f, 'g', -1, 64)
	case reflect.String:
		return rv.String()
	case reflect.Slice:
		out := make([]any, rv.Len())
		for i := range out {
			out[i] = c17Norm(rv.Index(i).Interface())
		}
		return out
	case reflect.Map:
		out := map[string]any{}
		for _, k := range rv.MapKeys() {
			out[fmt.Sprint(k.Interface())] = c17Norm(rv.MapIndex(k).Interface())
		}
		return out
	case reflect.Struct:
		out := map[string]any{}
		for i := 0; i < rv.NumField(); i++ {
			out[rv.Type().Field(i).Name] = c17Norm(rv.Field(i).Interface())
		}
		return out
	}
	return v
}

func c17Show(v any) string {
	rv := reflect.ValueOf(v)
	if rv.IsValid() && rv.Kind() == reflect.Pointer && !rv.IsNil() {
		return "&" + fmt.Sprintf("%#v", rv.Elem().Interface())
	}
	return fmt.Sprintf("%#v", v)
}

func c17Run(c *core.Ctx) {
	doc, _ := yaml.Marshal(c17Vals)
	var vk, tk []string
	for k := range c17Vals {
		vk = append(vk, k)
	}
	for k := range c17Types {
		tk = append(tk, k)
	}
	sort.Strings(vk)
	sort.Strings(tk)
	gen := func(yield func(c17Case) bool) {
		for _, tn := range tk {
			for _, k := range vk {
				if !c17Compatible(k, tn) {
					continue
				}
				for _, p := range []string{"prefix", "value", "prop", "value-default", "prop-default", "prefix-preset", "value-preset"} {
					// integers above 2^53 inside lists / maps / structs: by prefix only (on the other
					// paths every value makes a JSON round trip - the listed residue of D7)
					if (k == "lbig" || k == "mbig") && !strings.HasPrefix(p, "prefix") {
						continue
					}
					if strings.HasSuffix(p, "-default") && c17Default(tn) == "" {
						continue
					}
					if strings.HasSuffix(p, "-preset") && c17Preset(tn) == nil {
						continue
					}
					if !yield(c17Case{k, tn, p}) {
						return
					}
				}
			}
		}
		for _, tc := range [][2]string{{"m", "cpm"}, {"m", "pcpm"}, {"ms", "pcpms"}} {
			if !yield(c17Case{tc[0], tc[1], "properties-interface"}) {
				return
			}
		}
		for _, k := range vk {
			s, ok := c17Vals[k].(string)
			if !ok || s == "" || k == "scomma" {
				continue
			}
			for _, tn := range []string{"string", "pstring", "nstring", "pnstring"} {
				if !yield(c17Case{k, tn, "literal"}) {
					return
				}
			}
		}
	}
	bind := func(t reflect.Type, tag string, preset any) (any, *scen.StartObs) {
		st := reflect.StructOf([]reflect.StructField{{Name: "X", Type: t, Tag: reflect.StructTag(tag)}})
		h := reflect.New(st)
		if preset != nil {
			h.Elem().Field(0).Set(reflect.ValueOf(preset))
		}
		o := scen.Start(scen.StartSpec{Ch: envx.Fixed("", nil), Comps: []any{h.Interface()}, Opts: []app.SettingOption{app.SetConfigLoader(loader.NewRawLoader(doc))}})
		return h.Elem().Field(0).Interface(), o
	}
	Cases(c, gen, func(c *core.Ctx, cs c17Case) {
		t := c17Types[cs.Type]
		if cs.Path == "properties-interface" {
			t = map[string]reflect.Type{"cpm": reflect.TypeOf(c17CPm{}), "pcpm": reflect.TypeOf(&c17CPm{}), "pcpms": reflect.TypeOf(&c17CPms{})}[cs.Type]
		}
		c.S.Evaluations++
		c.S.Programs++
		c.S.States++
		c.S.Transitions++
		raw := c17Vals[cs.Val]
		if s, ok := raw.(string); !ok || fmt.Sprint(mustParseYAMLScalar(s)) != s {
			c.S.Nontrivial++
		}
		// reference: strict YAML decoding of the value into the field type
		ref := reflect.New(t)
		sub, _ := yaml.Marshal(raw)
		if err := yaml.Unmarshal(sub, ref.Interface()); err != nil {
			panic(fmt.Sprintf("C17 reference cannot decode %s into %s: %v", cs.Val, cs.Type, err))
		}
		want := ref.Elem().Interface()
		var tag string
		switch cs.Path {
		case "prefix":
			tag = fmt.Sprintf(`prefix:"%s"`, cs.Val)
		case "value":
			tag = fmt.Sprintf(`value:"${%s}"`, cs.Val)
		case "prop":
			tag = fmt.Sprintf(`prop:"%s"`, cs.Val)
		case "prefix-preset":
			tag = fmt.Sprintf(`prefix:"%s"`, cs.Val)
		case "value-preset":
			tag = fmt.Sprintf(`value:"${%s}"`, cs.Val)
		case "value-default": // the key is configured, so the default must be ignored
			tag = fmt.Sprintf(`value:"${%s:%s}"`, cs.Val, c17Default(cs.Type))
		case "prop-default":
			tag = fmt.Sprintf(`prop:"%s:%s"`, cs.Val, c17Default(cs.Type))
		case "literal":
			tag = "value:" + strconv.Quote(raw.(string))
		case "properties-interface":
			tag = `yaml:"-"` // no container tag: the field's type names its prefix
		}
		var preset any
		if strings.HasSuffix(cs.Path, "-preset") {
			preset = c17Preset(cs.Type)
		}
		got, o := bind(t, tag, preset)
		observed := c17Show(got)
		switch {
		case o.Panic != "" || o.Abort != "":
			observed = "panic: " + o.Panic + o.Abort
		case len(o.ChildPanics) > 0:
			observed = "panic in a goroutine of the scanning phase (fatal for a real process): " + scen.FirstLine(fmt.Errorf("%s", o.ChildPanics[0]))
		case o.Err != nil:
			observed = "start-up error"
		}
		if observed == "start-up error" || o.Panic != "" || o.Abort != "" || len(o.ChildPanics) > 0 || !reflect.DeepEqual(c17Norm(got), c17Norm(want)) {
			c.Outcome(cs.Path + "/differs")
			key := fmt.Sprintf("C17/%s/%s/%s/%s", cs.Path, cs.Type, cs.Val, core.Hash(observed))
			c.Report(key, "value-changed", fmt.Sprintf("%s path, field type %s, configured value %s = %#v: field holds %s, want %s", cs.Path, cs.Type, cs.Val, raw, observed, c17Show(want)), cs)
			return
		}
		c.Outcome(cs.Path + "/unchanged")
		if c.S.Programs%40 == 1 {
			c.Sample(map[string]any{"case": cs, "configured": fmt.Sprintf("%#v", raw), "bound": observed})
		}
	})
}

func mustParseYAMLScalar(s string) any {
	var v any
	if yaml.Unmarshal([]byte(s), &v) != nil {
		return nil
	}
	return v
}

// ---- arbitrary short strings: every string over a risky alphabet must reach string fields
// unchanged through all four paths.

type c17StrCase struct {
	S string `json:"string"`
}

var c17Alphabet = []byte{'0', '1', '.', 'e', '-', 'a', 'T', ' ', '[', ',', '\'', ':', '"', '}'}

func c17Strings(c *core.Ctx) {
	maxLen := 4
	if c.Thorough() {
		maxLen = 5
	}
	gen := func(yield func(c17StrCase) bool) {
		var rec func(cur []byte) bool
		rec = func(cur []byte) bool {
			if len(cur) > 0 && !yield(c17StrCase{string(cur)}) {
				return false
			}
			if len(cur) == maxLen {
				return true
			}
			for _, b := range c17Alphabet {
				if !rec(append(cur[:len(cur):len(cur)], b)) {
					return false
				}
			}
			return true
		}
		rec(nil)
	}
	tString, tPString := reflect.TypeOf(""), reflect.TypeOf((*string)(nil))
	Cases(c, gen, func(c *core.Ctx, cs c17StrCase) {
		doc, _ := yaml.Marshal(map[string]any{"k": cs.S})
		fields := []reflect.StructField{
			{Name: "P", Type: tString, Tag: `prefix:"k"`},
			{Name: "V", Type: tString, Tag: `value:"${k}"`},
			{Name: "Q", Type: tString, Tag: `prop:"k"`},
			{Name: "PV", Type: tPString, Tag: `value:"${k}"`},
		}
		literal := !strings.ContainsAny(cs.S, ",") && strings.TrimSpace(cs.S) != ""
		if literal {
			fields = append(fields, reflect.StructField{Name: "L", Type: tString, Tag: reflect.StructTag("value:" + strconv.Quote(cs.S))})
			if !strings.ContainsAny(cs.S, "[{(") {
				// the same literal in a tag that also carries an argument
				fields = append(fields, reflect.StructField{Name: "LA", Type: tString, Tag: reflect.StructTag("value:" + strconv.Quote(cs.S+",required=false"))})
			}
		}
		h := reflect.New(reflect.StructOf(fields))
		o := scen.Start(scen.StartSpec{Ch: envx.Fixed("", nil), Comps: []any{h.Interface()}, Opts: []app.SettingOption{app.SetConfigLoader(loader.NewRawLoader(doc))}})
		c.S.Evaluations++
		c.S.Programs++
		c.S.States++
		c.S.Transitions += int64(len(fields))
		if fmt.Sprint(mustParseYAMLScalar(cs.S)) != cs.S {
			c.S.Nontrivial++
		}
		observed := ""
		switch {
		case o.Panic != "" || o.Abort != "":
			observed = "panic: " + o.Panic + o.Abort
		case o.Err != nil:
			observed = "start-up error"
		default:
			e := h.Elem()
			for i, f := range fields {
				got := ""
				if f.Type == tPString {
					if !e.Field(i).IsNil() {
						got = e.Field(i).Elem().String()
					} else {
						got = "<nil>"
					}
				} else {
					got = e.Field(i).String()
				}
				if got != cs.S {
					observed += fmt.Sprintf("%s=%q ", f.Name, got)
				}
			}
		}
		if observed != "" {
			c.Outcome("changed")
			c.Report(fmt.Sprintf("C17/strings/%q/%s", cs.S, core.Hash(observed)), "value-changed",
				fmt.Sprintf("configured string k: %q bound to string fields by prefix (P), value (V, PV), prop (Q)%s: %s", cs.S, map[bool]string{true: " and written as a literal (L; LA with an argument after it)", false: ""}[literal], observed), cs)
			return
		}
		c.Outcome("unchanged")
		if c.S.Programs%300 == 1 {
			c.Sample(map[string]any{"string": cs.S, "literal_checked": literal})
		}
	})
}

// ---- sibling fields: several fields of one component (and of two components of one start) bound
// from the same key / the same literal must each get the value converted to *their own* type

type c17SibCase struct {
	Text    string `json:"text"`
	Sibling string `json:"sibling_type"` // the other field: pint pfloat pbool int float bool
	Checked string `json:"checked_type"` // string pstring
	Path    string `json:"path"`         // value prop literal
	First   bool   `json:"sibling_declared_first"`
	TwoComp bool   `json:"two_components,omitempty"`
}

func c17Siblings(c *core.Ctx) {
	combos := map[string][]string{
		"007": {"pint", "int", "pfloat"}, "1.10": {"pfloat", "float"}, "+5": {"pint", "int"}, "1e3": {"pfloat", "float"},
		"TRUE": {"pbool", "bool"}, "false": {"pbool", "bool"}, "2.50": {"pfloat"}, "0": {"pint", "pbool", "pfloat"},
	}
	types := map[string]reflect.Type{
		"pint": reflect.TypeOf((*int)(nil)), "int": reflect.TypeOf(0), "pfloat": reflect.TypeOf((*float64)(nil)), "float": reflect.TypeOf(0.0),
		"pbool": reflect.TypeOf((*bool)(nil)), "bool": reflect.TypeOf(false), "string": reflect.TypeOf(""), "pstring": reflect.TypeOf((*string)(nil)),
	}
	gen := func(yield func(c17SibCase) bool) {
		var texts []string
		for t := range combos {
			texts = append(texts, t)
		}
		sort.Strings(texts)
		for _, t := range texts {
			for _, sib := range combos[t] {
				for _, chk := range []string{"string", "pstring"} {
					for _, path := range []string{"value", "prop", "literal"} {
						for _, first := range []bool{true, false} {
							for _, two := range []bool{false, true} {
								if !yield(c17SibCase{t, sib, chk, path, first, two}) {
									return
								}
							}
						}
					}
				}
			}
		}
	}
	Cases(c, gen, func(c *core.Ctx, cs c17SibCase) {
		doc, _ := yaml.Marshal(map[string]any{"k": cs.Text})
		var tag string
		switch cs.Path {
		case "value":
			tag = `value:"${k}"`
		case "prop":
			tag = `prop:"k"`
		default:
			tag = "value:" + strconv.Quote(cs.Text)
		}
		sib := reflect.StructField{Name: "S", Type: types[cs.Sibling], Tag: reflect.StructTag(tag)}
		chk := reflect.StructField{Name: "X", Type: types[cs.Checked], Tag: reflect.StructTag(tag)}
		var comps []any
		var holder reflect.Value
		if cs.TwoComp {
			// two components: the sibling's holder gets a name that sorts before / after the checked one
			h1 := reflect.New(reflect.StructOf([]reflect.StructField{sib, {Name: "Pad", Type: reflect.TypeOf(int8(0))}}))
			holder = reflect.New(reflect.StructOf([]reflect.StructField{chk}))
			if cs.First {
				comps = []any{h1.Interface(), holder.Interface()}
			} else {
				comps = []any{holder.Interface(), h1.Interface()}
			}
		} else {
			fs := []reflect.StructField{sib, chk}
			if !cs.First {
				fs = []reflect.StructField{chk, sib}
			}
			holder = reflect.New(reflect.StructOf(fs))
			comps = []any{holder.Interface()}
		}
		o := scen.Start(scen.StartSpec{Ch: envx.Fixed("", nil), Comps: comps, Opts: []app.SettingOption{app.SetConfigLoader(loader.NewRawLoader(doc))}})
		c.S.Evaluations++
		c.S.Programs++
		c.S.States++
		c.S.Transitions += 2
		c.S.Nontrivial++
		key := "C17/siblings/" + core.Hash(cs)
		if !o.OK() {
			c.Outcome("siblings/start-failed")
			c.Report(key, "value-changed", fmt.Sprintf("%+v: start-up failed: %v %s", cs, scen.FirstLine(o.Err), o.Panic), cs)
			return
		}
		x := holder.Elem().FieldByName("X")
		got := ""
		if x.Kind() == reflect.Pointer {
			if x.IsNil() {
				got = "<nil>"
			} else {
				got = x.Elem().String()
			}
		} else {
			got = x.String()
		}
		if got != cs.Text {
			c.Outcome("siblings/changed")
			c.Report(key, "value-changed", fmt.Sprintf("%s field bound through %s from text %q next to a %s field bound from the same text (sibling declared first: %v, separate components: %v): holds %q", cs.Checked, cs.Path, cs.Text, cs.Sibling, cs.First, cs.TwoComp, got), cs)
			return
		}
		c.Outcome("siblings/unchanged")
		if c.S.Programs%60 == 1 {
			c.Sample(map[string]any{"case": cs, "bound": got})
		}
	})
}
