package props

import (
	"fmt"
	"strings"

	"github.com/go-kid/ioc/configure"
	"github.com/go-kid/ioc/configure/binder"
	"github.com/go-kid/ioc/configure/loader"
	"gopkg.in/yaml.v3"

	"verif/internal/core"
	"verif/internal/scen"
)

// Histories on one Configure: sources are added, the configuration is initialised, further
// sources are added and it is initialised again (a retry, or sources that arrive at run time).
// After every Initialize the effective configuration is the deep merge of everything added so far.

type c15ReinitCase struct {
	Ops []c15Step `json:"ops"` // Way "add" adds one loader, Way "init" calls Initialize
}

func c15Reinit(c *core.Ctx) {
	c15Setup()
	gen := func(yield func(c15ReinitCase) bool) {
		var ls []c15Step
		for _, d := range []int{0, 2, 3, 5} {
			for _, k := range []string{"raw", "file", "args"} {
				ls = append(ls, c15Step{Way: "add", Kind: k, Doc: d})
			}
		}
		var groups [][]c15Step // one or two additions
		for _, a := range ls {
			groups = append(groups, []c15Step{a})
			for _, b := range ls {
				groups = append(groups, []c15Step{a, b})
			}
		}
		ini := c15Step{Way: "init"}
		// user-defined loaders of the Ordered and the priority-ordered class next to the built-in
		// kinds: up to three sources, one Initialize
		var ul []c15Step
		for _, d := range []int{0, 5} {
			for _, k := range []string{"raw", "file", "args", "userO-1", "userO0", "userO1", "userP-1", "userP1"} {
				ul = append(ul, c15Step{Way: "add", Kind: k, Doc: d})
			}
		}
		for _, a := range ul {
			for _, b := range ul {
				if !yield(c15ReinitCase{[]c15Step{a, b, ini}}) {
					return
				}
				for _, d := range ul {
					if !yield(c15ReinitCase{[]c15Step{a, b, d, ini}}) {
						return
					}
				}
			}
		}
		for _, g1 := range groups {
			for _, g2 := range groups {
				ops := append(append(append([]c15Step{}, g1...), ini), append(append([]c15Step{}, g2...), ini)...)
				if !yield(c15ReinitCase{ops}) {
					return
				}
				if len(g1) == 1 && len(g2) == 1 { // a third round
					for _, g3 := range groups[:len(ls)*(len(ls)+1)] {
						if len(g3) != 1 {
							continue
						}
						if !yield(c15ReinitCase{append(append([]c15Step{}, ops...), g3[0], ini)}) {
							return
						}
					}
				}
			}
		}
	}
	Cases(c, gen, func(c *core.Ctx, cs c15ReinitCase) {
		cfg := configure.NewConfigure()
		cfg.SetBinder(binder.NewViperBinder("yaml"))
		type src struct {
			cls, ord int // 0 priority-ordered (files: Order 0), 1 ordered, 2 neither (sequenced as added)
			vals     map[string]string
		}
		var eff []src
		c.S.Programs++
		c.S.Nontrivial++
		c.S.Evaluations++
		c.S.States++
		c.S.Transitions += int64(len(cs.Ops))
		key := "C15/reinit/" + core.Hash(cs)
		round := 0
		bad := ""
		pan := scen.Protect(func() {
			for _, op := range cs.Ops {
				if op.Way == "add" {
					cls, ord := 2, 0
					switch {
					case op.Kind == "raw":
						cfg.AddLoaders(loader.NewRawLoader([]byte(c15Docs[op.Doc].yaml)))
					case op.Kind == "file":
						cls = 0
						cfg.AddLoaders(loader.NewFileLoader(c15Files[op.Doc]))
					case op.Kind == "args":
						cfg.AddLoaders(loader.NewArgsLoader(c15Docs[op.Doc].args))
					case strings.HasPrefix(op.Kind, "userO"): // a user-defined loader in the Ordered class
						cls = 1
						fmt.Sscan(op.Kind[5:], &ord)
						cfg.AddLoaders(&scen.LoadO{Part: scen.Part{Nm: op.Kind, O: ord, RT: &scen.RT{}}, Doc: c15Docs[op.Doc].yaml})
					default: // "userP<k>": a user-defined priority-ordered loader
						cls = 0
						fmt.Sscan(op.Kind[5:], &ord)
						cfg.AddLoaders(&scen.LoadP{Part: scen.Part{Nm: op.Kind, O: ord, RT: &scen.RT{}}, Doc: c15Docs[op.Doc].yaml})
					}
					m := map[string]any{}
					yaml.Unmarshal([]byte(c15Docs[op.Doc].yaml), &m)
					vals := map[string]string{}
					c15Flatten("", m, vals)
					eff = append(eff, src{cls, ord, vals})
					continue
				}
				round++
				if err := cfg.Initialize(); err != nil {
					bad = fmt.Sprintf("Initialize #%d failed: %s", round, scen.FirstLine(err))
					return
				}
				for _, p := range c15Paths {
					// the supplier that is sequenced last wins; suppliers of equal rank inside the two
					// ordered classes may be sequenced either way
					adm := map[string]bool{}
					best := [3]int{-1, 0, 0}
					for i, e := range eff {
						v, ok := e.vals[p]
						if !ok {
							continue
						}
						k := [3]int{e.cls, e.ord, 0}
						if e.cls == 2 {
							k = [3]int{2, 0, i}
						}
						switch {
						case k[0] > best[0] || (k[0] == best[0] && (k[1] > best[1] || (k[1] == best[1] && k[2] > best[2]))):
							best, adm = k, map[string]bool{v: true}
						case k == best:
							adm[v] = true
						}
					}
					got := ""
					if v := cfg.Get(p); v != nil {
						got = fmt.Sprint(v)
					}
					if (len(adm) > 0 && !adm[got]) || (len(adm) == 0 && got != "") {
						bad = fmt.Sprintf("after Initialize #%d the effective value of %q is %q, admissible %v (deep merge of every source added so far, files first)", round, p, got, adm)
						return
					}
				}
			}
		})
		switch {
		case pan != "":
			c.Outcome("panic")
			c.Report(key, "panic", fmt.Sprintf("history %v panicked: %s", cs.Ops, pan), cs)
		case bad != "":
			c.Outcome("reinit/wrong")
			c.Report(key, "source-dropped", fmt.Sprintf("history %v: %s", cs.Ops, bad), cs)
		default:
			c.Outcome(fmt.Sprintf("reinit/ok/rounds=%d", round))
		}
		if c.S.Programs%3000 == 1 {
			c.Sample(map[string]any{"ops": cs.Ops})
		}
	})
}
