package props

import (
	"errors"
	"fmt"
	"sort"
	"strings"
	"sync/atomic"

	"github.com/anishathalye/porcupine"
	"github.com/go-kid/ioc/app"
	"github.com/go-kid/ioc/configure"
	"github.com/go-kid/ioc/container"
	"github.com/go-kid/ioc/container/factory"
	"github.com/go-kid/ioc/container/processors"
	"github.com/go-kid/ioc/container/support"
	"github.com/go-kid/ioc/definition"
	"github.com/go-kid/ioc/syslog"
	"github.com/go-kid/ioc/util/list"
	"github.com/go-kid/ioc/util/sync2"
	"github.com/go-kid/ioc/util/vsync"

	"verif/internal/core"
	"verif/internal/scen"
)

func init() {
	register(&Driver{
		ID:        "C20",
		Technique: "stateless model checking under a controlled scheduler: (A) every goroutine interleaving (<=2 concurrently scanned components; preemption-bounded for 3) of the real parallel scanning phase and of the real parallel Close, with the race detector as per-schedule oracle (scheduler hand-offs are invisible to tsan); (B) all interleavings of all small concurrent programs over the map / set utilities with a linearizability check of every recorded history",
		Rule:      "(A) components {1,2,3} x scanners {failing user scanner, + built-in tag scanner} x every subset of components on which the user scanner fails x every permutation of the spawn order; Close with 2-3 closers x failing subsets; whole starts serialised under several spawn orders and free-running; (B) programs of 2 threads x (1,1) and (2,1) operations and 3 threads x 1 operation (thorough: 2 x (2,2)) over sync2.Map {Load, Store, LoadOrStore, LoadOrStoreFn, Delete, Range} and ConcurrentSets / generic concurrent set {Put, Exists, Remove, Length, ToArray}, keys {k1,k2}, from the empty structure and from pre-populated ones ({k1}, {k1,k2}), a distinct value per operation; non-trivial = program whose operations touch a common key. Families added in later rounds (look-ups inside Init, retries after an abandoned attempt, user extension points at every Order, several containers, odd names / types / values) are listed per part in this file and described in MANIFEST.json (level_claimed.text) and DESIGN §7",
		Assumptions: []string{
			"Go's sync.Map is linearizable per operation (each shim-level map operation is one atomic step; Range visits a snapshot)",
			"data races are judged by tsan's happens-before model on the explored schedule; weak-memory effects below it are not covered",
		},
		Parts: []Part{
			{Name: "scan-races", Race: true, Verbose: true, Run: c20Scan, QuickS: 120, ThoroughS: 1500},
			{Name: "close-races", Race: true, Verbose: true, Run: c20Close, QuickS: 60, ThoroughS: 600},
			{Name: "whole-start", Race: true, Verbose: true, Run: c20Whole, QuickS: 60, ThoroughS: 300},
			{Name: "utilities", Run: c20Util, QuickS: 120, ThoroughS: 1800},
		},
	})
}

// ---------------------------------------------------------------- (A) scanning phase

type c20X struct {
	n string
	// identical argument-carrying tag texts in every component (only scanned here, never populated)
	Dep scen.Iface `wire:",qualifier=c20q"`
	V   string     `value:"${c20.v:1},validate=required"`
	Pfx struct {
		A string `yaml:"a"`
	} `prefix:"c20.p,required=false"`
}

func (x *c20X) Naming() string { return x.n }

// c20FailScan is a user scanner that fails on the configured components. Its own state is only
// read concurrently.
type c20FailScan struct {
	fail [8]bool
	seen [16]int32 // how often each component c<i> was handed to this scanner (atomic)
}

func (f *c20FailScan) Naming() string { return "zscan" }
func (f *c20FailScan) PostProcessDefinitionRegistry(r container.DefinitionRegistry, c any, name string) error {
	r.GetMetaOrRegister(name, c)
	if len(name) == 2 && name[0] == 'c' {
		atomic.AddInt32(&f.seen[name[1]-'0'], 1)
	} else {
		atomic.AddInt32(&f.seen[15], 1) // the scanners themselves are components too
	}
	if len(name) == 2 && name[0] == 'c' && f.fail[name[1]-'0'] {
		return errors.New("scan failed on " + name)
	}
	return nil
}

// c20ReadScan is a user scanner that looks at the definitions (and their properties) of the other
// components - what a scanner of an earlier phase has written.
type c20ReadScan struct{ seen int }

func (f *c20ReadScan) Naming() string { return "zread" }
func (f *c20ReadScan) PostProcessDefinitionRegistry(r container.DefinitionRegistry, c any, name string) error {
	r.GetMetaOrRegister(name, c)
	n := 0
	for _, m := range r.GetMetas() {
		n += len(m.GetAllProperties()) + len(m.Name()) // what a definition has and what it is called
	}
	_ = n
	return nil
}

type c20ScanCase struct {
	Reader   bool  `json:"with_reading_scanner,omitempty"`
	N        int   `json:"components"`
	FailMask int   `json:"failing_mask"`
	Builtin  bool  `json:"with_builtin_scanner"`
	Order    []int `json:"spawn_order"`
	Bound    int   `json:"preemption_bound"`
	Script   []int `json:"schedule,omitempty"`
	// Single: only the default schedule is run (many goroutines: component counts around a batch size)
	Single bool `json:"default_schedule_only,omitempty"`
}

func c20Scan(c *core.Ctx) {
	gen := func(yield func(c20ScanCase) bool) {
		for n := 1; n <= 3; n++ {
			for _, builtin := range []bool{false, true} {
				// the scanner is a registered component itself: n+1 (+1) goroutines per scanner
				bound := 99
				switch {
				case n == 1 && builtin:
					bound = 2
				case n == 2 && builtin:
					bound = 0
					if c.Thorough() {
						bound = 0 // +1 below
					}
				case n == 2:
					bound = 2
				case n == 3 && builtin:
					continue // two scanner phases with five goroutines each: covered by n<=2
				case n == 3:
					bound = 1
				}
				if c.Thorough() && bound < 99 {
					bound++
				}
				for fm := 0; fm < 1<<n; fm++ {
					for k := 0; k < factorialInt(n); k++ {
						if !c.Thorough() && n == 3 && k != 0 && k != 5 {
							continue
						}
						if !yield(c20ScanCase{N: n, FailMask: fm, Builtin: builtin, Order: scen.NthPerm(n, k), Bound: bound}) {
							return
						}
					}
				}
			}
		}
	}
	gen0 := gen
	gen = func(yield func(c20ScanCase) bool) {
		stopped := false
		gen0(func(cs c20ScanCase) bool {
			if !yield(cs) {
				stopped = true
			}
			return !stopped
		})
		if stopped {
			return
		}
		// component counts around a multiple of eight (work split into batches): one schedule each,
		// every component scanned exactly once by every scanner, no race
		for _, n := range []int{6, 7, 8} {
			for _, builtin := range []bool{false, true} {
				if !yield(c20ScanCase{N: n, Builtin: builtin, Order: scen.NthPerm(n, 0), Bound: 0, Single: true}) {
					return
				}
			}
		}
		// a user scanner that reads the other components' definitions, next to the built-in scanner
		for n := 1; n <= 2; n++ {
			for k := 0; k < factorialInt(n); k++ {
				if !yield(c20ScanCase{N: n, Builtin: true, Reader: true, Order: scen.NthPerm(n, k), Bound: 2 - n}) {
					return
				}
			}
		}
	}
	Cases(c, gen, func(c *core.Ctx, cs c20ScanCase) {
		rank := map[string]int{}
		for pos, i := range cs.Order {
			rank[fmt.Sprintf("c%d", i)] = pos
		}
		var gotErr bool
		var metas int
		var seen [16]int32
		body := func() {
			syslog.ResetForVerif(syslog.LvTrace) // every execution starts with cold logger state
			reg := support.NewRegistry()
			for i := 0; i < cs.N; i++ {
				reg.RegisterSingleton(&c20X{n: fmt.Sprintf("c%d", i)})
			}
			fs := &c20FailScan{}
			for i := 0; i < cs.N; i++ {
				fs.fail[i] = cs.FailMask>>i&1 == 1
			}
			if !cs.Reader { // the reading scanner takes the failing user scanner's place
				reg.RegisterSingleton(fs)
			}
			if cs.Builtin {
				reg.RegisterSingleton(processors.NewDependencyAwarePostProcessors())
			}
			if cs.Reader {
				reg.RegisterSingleton(&c20ReadScan{})
			}
			f := factory.Default()
			f.SetRegistry(reg)
			f.SetConfigure(configure.NewConfigure())
			err := f.PrepareComponents()
			gotErr = err != nil
			metas = len(f.GetDefinitionRegistry().GetMetas())
			for i := range seen {
				seen[i] = atomic.LoadInt32(&fs.seen[i])
			}
		}
		oracle := func(e *scen.SchedExec) {
			c.S.Evaluations++
			c.S.States++
			cc := cs
			cc.Script = e.Script
			key := func(kind string) string {
				return "C20/scan-" + kind + "/" + core.Hash(cs.N, cs.FailMask, cs.Builtin)
			}
			switch {
			case e.Raced:
				c.Outcome("data-race")
				c.Report(key("race"), "data-race", fmt.Sprintf("scanning %d components (user scanner fails on mask %b, built-in scanner %v), spawn order %v, schedule %v: the race detector reported\n%s", cs.N, cs.FailMask, cs.Builtin, cs.Order, e.Script, scen.RaceLogTail(1800)), cc)
			case e.Deadlock:
				c.Outcome("deadlock")
				c.Report(key("deadlock"), "deadlock", fmt.Sprintf("scanning %d components deadlocks under schedule %v", cs.N, e.Script), cc)
			case len(e.ChildPanics) > 0:
				c.Outcome("panic")
				c.Report(key("panic"), "panic", fmt.Sprintf("panic in a scanning goroutine: %v", e.ChildPanics), cc)
			case !cs.Reader && func() bool {
				for i := 0; i < cs.N; i++ {
					if seen[i] != 1 {
						return true
					}
				}
				others := int32(1)
				if cs.Builtin {
					others = 2
				}
				return seen[15] != others
			}():
				c.Outcome("not-once")
				c.Report(key("scancount"), "not-exactly-once", fmt.Sprintf("scanning %d components (built-in scanner %v): the user scanner was handed the components %v times (want once each) and the scanner components %d times in all under schedule %v", cs.N, cs.Builtin, seen[:cs.N], seen[15], e.Script), cc)
			case gotErr != (cs.FailMask != 0):
				c.Outcome("error-lost")
				c.Report(key("errlost"), "error-lost", fmt.Sprintf("scanner failed on mask %b but PrepareComponents returned error=%v under schedule %v", cs.FailMask, gotErr, e.Script), cc)
			default:
				c.Outcome(fmt.Sprintf("n=%d/err=%v/metas=%d", cs.N, gotErr, metas))
			}
		}
		vsync.KeyRank = rank
		defer func() { vsync.KeyRank = nil }()
		if c.ReplayCase != nil {
			oracle(scen.ReplaySched(cs.Script, body))
			return
		}
		c.S.Programs++
		if cs.N >= 2 {
			c.S.Nontrivial++
		}
		if cs.Single {
			oracle(scen.ReplaySched(nil, body))
			return
		}
		st := scen.ExploreSched(cs.Bound, 0, c.Expired, body, oracle)
		c.S.Transitions += st.Points
		c.S.Extra[fmt.Sprintf("schedules n=%d builtin=%v bound=%d", cs.N, cs.Builtin, cs.Bound)] += st.Execs
		if st.Truncated {
			c.Cap(fmt.Sprintf("schedule exploration of %+v truncated by the budget after %d schedules", cs, st.Execs))
		}
		if c.S.Programs%6 == 1 {
			c.Sample(map[string]any{"config": cs, "schedules": st.Execs, "all_interleavings": cs.Bound >= 99, "schedules_with_race_report": st.RaceExecs})
		}
	})
}

// ---------------------------------------------------------------- (A) Close

func c20Close(c *core.Ctx) {
	gen := func(yield func(c14Case) bool) {
		for n := 2; n <= 3; n++ {
			bound := 99
			if n == 3 {
				bound = 2
			}
			for fail := 0; fail < 1<<n; fail++ {
				if !yield(c14Case{N: n, Fail: fail, Steps: 1, Slow: -1, Bound: bound}) {
					return
				}
			}
		}
	}
	Cases(c, gen, func(c *core.Ctx, cs c14Case) {
		var closers []*c14Closer
		var comps []definition.CloserComponent
		for i := 0; i < cs.N; i++ {
			k := &c14Closer{idx: i, fail: cs.Fail>>i&1 == 1, steps: cs.Steps}
			closers = append(closers, k)
			comps = append(comps, k)
		}
		a := &app.App{CloserComponents: comps}
		body := func() {
			syslog.ResetForVerif(syslog.LvTrace) // every execution starts with cold logger state
			c14Reset(closers)
			a.Close()
		}
		oracle := func(e *scen.SchedExec) {
			c.S.Evaluations++
			c.S.States++
			if e.Raced {
				cc := cs
				cc.Script = e.Script
				c.Outcome("data-race")
				c.Report("C20/close-race/"+core.Hash(cs.N, cs.Fail), "data-race", fmt.Sprintf("Close with %d closers (failing mask %b), schedule %v: the race detector reported\n%s", cs.N, cs.Fail, e.Script, scen.RaceLogTail(1800)), cc)
				return
			}
			c.Outcome(fmt.Sprintf("close n=%d/no-race", cs.N))
		}
		if c.ReplayCase != nil {
			oracle(scen.ReplaySched(cs.Script, body))
			return
		}
		c.S.Programs++
		c.S.Nontrivial++
		st := scen.ExploreSched(cs.Bound, 0, c.Expired, body, oracle)
		c.S.Transitions += st.Points
		if st.Truncated {
			c.Cap("close schedule exploration truncated by the budget")
		}
		c.Sample(map[string]any{"config": cs, "schedules": st.Execs})
	})
}

// ---------------------------------------------------------------- (A) whole starts

type c20WholeCase struct {
	Prog    int   `json:"program"`
	Order   []int `json:"spawn_order"`
	Free    bool  `json:"free_running,omitempty"`
	Deviate bool  `json:"single_schedule_deviations,omitempty"`
	Script  []int `json:"schedule,omitempty"`
}

type c20Node struct {
	Nm   string
	Dep  scen.Iface   `wire:",required=false"`
	All  []scen.Iface `wire:",required=false"`
	Host string       `value:"${host:localhost}"`
	// identical argument-carrying tag texts in several components, without an explicit
	// `required` (scanners complete the argument list while scanning in parallel)
	Q    scen.Iface `wire:",qualifier=c20q"`
	Port int        `value:"${port:8080},validate=min=1"`
	// a configuration subtree bound by prefix (the properties scanner looks at every field of every
	// component, the scanners themselves included)
	Pfx struct {
		A string `yaml:"a"`
	} `prefix:"c20.p,required=false"`
}

// c20Q is the qualified provider of c20Node.Q.
type c20Q struct{}

func (*c20Q) ID() string        { return "wq" }
func (*c20Q) Naming() string    { return "wq" }
func (*c20Q) Qualifier() string { return "c20q" }

func (n *c20Node) ID() string     { return n.Nm }
func (n *c20Node) Naming() string { return n.Nm }
func (n *c20Node) Close() error   { return nil }

func c20Whole(c *core.Ctx) {
	gen := func(yield func(c20WholeCase) bool) {
		for prog := 0; prog < 3; prog++ {
			for k := 0; k < 6; k++ {
				if !yield(c20WholeCase{Prog: prog, Order: scen.NthPerm(3, k)}) {
					return
				}
			}
			for r := 0; r < 4; r++ {
				if !yield(c20WholeCase{Prog: prog, Free: true, Order: []int{r}}) {
					return
				}
			}
		}
	}
	// the deviation cases are split inside (every worker takes every program)
	if c.ReplayCase == nil {
		for prog := 0; prog < 3; prog++ {
			c20WholeOne(c, c20WholeCase{Prog: prog, Deviate: true})
		}
	}
	Cases(c, gen, c20WholeOne)
}

func c20WholeOne(c *core.Ctx, cs c20WholeCase) {
	{
		core.Tick()
		names := []string{"wa", "wb", "wc"}
		rank := map[string]int{}
		for pos, i := range cs.Order {
			if i < len(names) {
				rank[names[i]] = pos
			}
		}
		var err error
		body := func() {
			syslog.ResetForVerif(syslog.LvTrace)
			comps := []any{&c20Node{Nm: "wa"}, &c20Node{Nm: "wb"}, &c20Node{Nm: "wc"}, &c20Q{}}
			if cs.Prog >= 1 {
				fs := &c20FailScan{}
				comps = append(comps, fs)
			}
			if cs.Prog == 2 {
				comps = append(comps, &c20X{n: "c0"}, &c20X{n: "c1"})
				comps[4].(*c20FailScan).fail[0], comps[4].(*c20FailScan).fail[1] = true, true
			}
			a := app.NewApp()
			err = a.Run(app.SetConfigLoader(), app.SetComponents(comps...))
			a.Close()
		}
		if cs.Deviate {
			// every single deviation from the default schedule of a whole Run+Close: the worker
			// takes its share of the (point, alternative) pairs
			vsync.KeyRank = nil
			root := scen.ReplaySched(nil, body)
			idx := 0
			rec := append([]vsync.SchedPoint{}, vsync.Rec...)
			if root.Raced || root.Deadlock || len(root.ChildPanics) > 0 {
				// the default schedule itself (for a worker whose first case this is: the only execution
				// of the process that starts from cold process-global state)
				c.Outcome("data-race")
				c.Report("C20/whole-dev/"+core.Hash(cs.Prog), "data-race", fmt.Sprintf("whole start+close of program %d under the default schedule: race=%v deadlock=%v panics=%v\n%s", cs.Prog, root.Raced, root.Deadlock, root.ChildPanics, scen.RaceLogTail(1800)), cs)
				return
			}
			for i, pt := range rec {
				for alt := 1; alt < pt.N; alt++ {
					idx++
					if !c.Mine(idx) {
						continue
					}
					if idx&7 == 0 && c.Expired() {
						return
					}
					pre := make([]int, i+1)
					pre[i] = alt
					e := scen.ReplaySched(pre, body)
					c.S.Evaluations++
					c.S.States++
					c.S.Transitions += int64(len(e.Script))
					if e.Raced || e.Deadlock || len(e.ChildPanics) > 0 {
						cc := cs
						cc.Script = pre
						c.Outcome("data-race")
						c.Report("C20/whole-dev/"+core.Hash(cs.Prog), "data-race", fmt.Sprintf("whole start+close of program %d with the schedule deviating at point %d (alternative %d of %d): race=%v deadlock=%v panics=%v\n%s", cs.Prog, i, alt, pt.N, e.Raced, e.Deadlock, e.ChildPanics, scen.RaceLogTail(1800)), cc)
						return
					}
					c.Outcome(fmt.Sprintf("prog=%d/deviation/no-race", cs.Prog))
				}
			}
			if c.Shard == 0 {
				c.S.Programs++
				c.S.Nontrivial++
				c.Sample(map[string]any{"case": cs, "scheduling_choice_points": len(rec), "single_deviations": idx})
			}
			return
		}
		before := scen.RaceLogSize()
		if cs.Free {
			vsync.Chooser, vsync.OrderHook, vsync.KeyRank = nil, nil, nil
			body() // real goroutines, real concurrency: supplementary free-running pass
		} else {
			vsync.KeyRank = rank
			scen.ReplaySched(nil, body)
			vsync.KeyRank = nil
		}
		c.S.Evaluations++
		c.S.Programs++
		c.S.States++
		c.S.Transitions++
		c.S.Nontrivial++
		if scen.RaceLogSize() != before {
			c.Outcome("data-race")
			c.Report("C20/whole-race/"+core.Hash(cs.Prog), "data-race", fmt.Sprintf("whole start+close of program %d (free-running=%v, spawn order %v): the race detector reported\n%s", cs.Prog, cs.Free, cs.Order, scen.RaceLogTail(1800)), cs)
			return
		}
		c.Outcome(fmt.Sprintf("prog=%d/free=%v/err=%v/no-race", cs.Prog, cs.Free, err != nil))
		c.Sample(map[string]any{"case": cs, "start_error": err != nil})
	}
}

// ---------------------------------------------------------------- (B) utilities

type c20Op struct {
	Op  string `json:"op"`
	Key string `json:"key,omitempty"`
	Val int    `json:"val,omitempty"`
}

type c20Out struct {
	Val    int
	Loaded bool
	Snap   string
}

type c20UtilCase struct {
	Target  string    `json:"target"`                 // map set gset
	Init    []string  `json:"initial_keys,omitempty"` // keys stored sequentially before the threads start
	Threads [][]c20Op `json:"threads"`
	Script  []int     `json:"schedule,omitempty"`
}

type c20Event struct {
	Thread int
	Call   bool
	Id     int
	In     c20Op
	Out    c20Out
}

func snapOf(st map[string]int) string {
	var ks []string
	for k, v := range st {
		ks = append(ks, fmt.Sprintf("%s=%d", k, v))
	}
	sort.Strings(ks)
	return strings.Join(ks, ",")
}

// c20Step is the sequential specification of the map and the sets.
func c20Step(st map[string]int, in c20Op, out c20Out) (bool, map[string]int) {
	cp := func() map[string]int {
		m := map[string]int{}
		for k, v := range st {
			m[k] = v
		}
		return m
	}
	cur, ok := st[in.Key]
	switch in.Op {
	case "load":
		return out.Loaded == ok && (!ok || out.Val == cur), st
	case "exists":
		return out.Loaded == ok, st
	case "store", "put":
		m := cp()
		m[in.Key] = in.Val
		return true, m
	case "del", "remove":
		m := cp()
		delete(m, in.Key)
		return true, m
	case "los", "losfn":
		if ok {
			return out.Loaded && out.Val == cur, st
		}
		m := cp()
		m[in.Key] = in.Val
		return !out.Loaded && out.Val == in.Val, m
	case "range":
		return out.Snap == snapOf(st), st
	case "length":
		return out.Val == len(st), st
	case "toarray":
		var ks []string
		for k := range st {
			ks = append(ks, k)
		}
		sort.Strings(ks)
		return out.Snap == strings.Join(ks, ","), st
	}
	return false, st
}

// c20Linearizable: brute force over the (few) operations, respecting real-time order.
func c20Linearizable(evs []c20Event) bool {
	type op struct {
		in       c20Op
		out      c20Out
		call, rt int
	}
	var ops []op
	idx := map[int]int{}
	for i, e := range evs {
		if e.Call {
			idx[e.Id] = len(ops)
			ops = append(ops, op{in: e.In, call: i, rt: 1 << 30})
		} else {
			ops[idx[e.Id]].out, ops[idx[e.Id]].rt = e.Out, i
		}
	}
	n := len(ops)
	used := make([]bool, n)
	var rec func(st map[string]int, done int) bool
	rec = func(st map[string]int, done int) bool {
		if done == n {
			return true
		}
		for i := 0; i < n; i++ {
			if used[i] {
				continue
			}
			// i may come next only if no unused operation returned before i was called
			okNext := true
			for j := 0; j < n; j++ {
				if !used[j] && j != i && ops[j].rt < ops[i].call {
					okNext = false
				}
			}
			if !okNext {
				continue
			}
			if ok, ns := c20Step(st, ops[i].in, ops[i].out); ok {
				used[i] = true
				if rec(ns, done+1) {
					used[i] = false
					return true
				}
				used[i] = false
			}
		}
		return false
	}
	return rec(map[string]int{}, 0)
}

var c20Model = porcupine.Model{
	Init: func() interface{} { return map[string]int{} },
	Step: func(state, input, output interface{}) (bool, interface{}) {
		ok, ns := c20Step(state.(map[string]int), input.(c20Op), output.(c20Out))
		return ok, ns
	},
	Equal: func(a, b interface{}) bool { return snapOf(a.(map[string]int)) == snapOf(b.(map[string]int)) },
}

func c20UtilGen(c *core.Ctx) func(yield func(c20UtilCase) bool) {
	return func(yield func(c20UtilCase) bool) {
		alpha := map[string][]c20Op{}
		for _, k := range []string{"k1", "k2"} {
			for _, o := range []string{"load", "store", "los", "losfn", "del"} {
				alpha["map"] = append(alpha["map"], c20Op{Op: o, Key: k})
			}
			for _, o := range []string{"put", "exists", "remove"} {
				alpha["set"] = append(alpha["set"], c20Op{Op: o, Key: k})
				alpha["gset"] = append(alpha["gset"], c20Op{Op: o, Key: k})
			}
		}
		alpha["map"] = append(alpha["map"], c20Op{Op: "range"})
		alpha["set"] = append(alpha["set"], c20Op{Op: "length"}, c20Op{Op: "toarray"})
		alpha["gset"] = append(alpha["gset"], c20Op{Op: "length"}, c20Op{Op: "toarray"})
		// histories that start from a non-empty structure: two threads on a pre-populated set / map
		for _, target := range []string{"set", "gset", "map"} {
			al := alpha[target]
			for _, init := range [][]string{{"k1"}, {"k1", "k2"}} {
				for _, a := range al {
					for _, b := range al {
						if !yield(c20UtilCase{Target: target, Init: init, Threads: [][]c20Op{{a}, {b}}}) {
							return
						}
						if target == "map" && !c.Thorough() {
							continue
						}
						for _, d := range al {
							if !yield(c20UtilCase{Target: target, Init: init, Threads: [][]c20Op{{a, d}, {b}}}) {
								return
							}
							if c.Thorough() && !yield(c20UtilCase{Target: target, Init: init, Threads: [][]c20Op{{a}, {b}, {d}}}) {
								return
							}
						}
					}
				}
			}
		}
		for _, target := range []string{"map", "set", "gset"} {
			al := alpha[target]
			for _, a := range al {
				for _, b := range al {
					if !yield(c20UtilCase{Target: target, Threads: [][]c20Op{{a}, {b}}}) {
						return
					}
					for _, d := range al {
						if !yield(c20UtilCase{Target: target, Threads: [][]c20Op{{a, d}, {b}}}) {
							return
						}
						if !yield(c20UtilCase{Target: target, Threads: [][]c20Op{{a}, {b}, {d}}}) {
							return
						}
						if c.Thorough() || target != "map" {
							for _, e := range al {
								if !yield(c20UtilCase{Target: target, Threads: [][]c20Op{{a, d}, {b, e}}}) {
									return
								}
							}
						}
					}
				}
			}
		}
	}
}

func c20Util(c *core.Ctx) {
	Cases(c, c20UtilGen(c), func(c *core.Ctx, cs c20UtilCase) {
		// a distinct value per operation
		val := 1
		threads := make([][]c20Op, len(cs.Threads))
		keys := map[string]int{}
		for t := range cs.Threads {
			for _, o := range cs.Threads[t] {
				o.Val = val
				val++
				threads[t] = append(threads[t], o)
				keys[o.Key]++
			}
		}
		var events []c20Event
		body := func() {
			events = nil
			nextID := 0
			m := sync2.New[string, int]()
			set := list.NewConcurrentSets()
			gset := list.NewGenericConcurrentSets[string]()
			for i, k := range cs.Init {
				// sequential prefix (recorded as completed operations of a thread -1)
				in := c20Op{Op: "store", Key: k, Val: 100 + i}
				switch cs.Target {
				case "map":
					m.Store(k, 100+i)
				case "set":
					set.Put(k)
					in = c20Op{Op: "put", Key: k, Val: 1}
				default:
					gset.Put(k)
					in = c20Op{Op: "put", Key: k, Val: 1}
				}
				events = append(events, c20Event{Thread: -1, Call: true, Id: nextID, In: in}, c20Event{Thread: -1, Id: nextID, In: in})
				nextID++
			}
			apply := func(i c20Op) c20Out {
				switch cs.Target + "/" + i.Op {
				case "map/load":
					v, ok := m.Load(i.Key)
					return c20Out{Val: v, Loaded: ok}
				case "map/store":
					m.Store(i.Key, i.Val)
				case "map/del":
					m.Delete(i.Key)
				case "map/los":
					v, l := m.LoadOrStore(i.Key, i.Val)
					return c20Out{Val: v, Loaded: l}
				case "map/losfn":
					v, l := m.LoadOrStoreFn(i.Key, func() int { return i.Val })
					return c20Out{Val: v, Loaded: l}
				case "map/range":
					st := map[string]int{}
					m.Range(func(k string, v int) bool { st[k] = v; return true })
					return c20Out{Snap: snapOf(st)}
				case "set/put":
					set.Put(i.Key)
				case "set/exists":
					return c20Out{Loaded: set.Exists(i.Key)}
				case "set/remove":
					set.Remove(i.Key)
				case "gset/put":
					gset.Put(i.Key)
				case "gset/exists":
					return c20Out{Loaded: gset.Exists(i.Key)}
				case "gset/remove":
					gset.Remove(i.Key)
				case "set/length":
					return c20Out{Val: set.Length()}
				case "gset/length":
					return c20Out{Val: gset.Length()}
				case "set/toarray":
					a := set.ToArray()
					sort.Strings(a)
					return c20Out{Snap: strings.Join(a, ",")}
				case "gset/toarray":
					a := gset.ToArray()
					sort.Strings(a)
					return c20Out{Snap: strings.Join(a, ",")}
				default:
					panic("unknown op " + i.Op)
				}
				return c20Out{}
			}
			// all threads start together (no scheduling points at the spawns) and the parent only
			// waits: the explored interleavings are exactly those of the operations' own steps
			finished := 0
			for t := range threads {
				t := t
				vsync.GoHeld(func() {
					for _, i := range threads[t] {
						id := nextID
						nextID++
						in := i
						if cs.Target != "map" {
							in.Val = 1 // sets store no value
						}
						events = append(events, c20Event{Thread: t, Call: true, Id: id, In: in})
						o := apply(i)
						events = append(events, c20Event{Thread: t, Id: id, In: in, Out: o})
					}
					finished++
				})
			}
			vsync.Release()
			vsync.WaitUntil(func() bool { return finished == len(threads) })
		}
		oracle := func(e *scen.SchedExec) {
			c.S.Evaluations++
			c.S.States++
			evs := events
			lin := c20Linearizable(evs)
			var pevs []porcupine.Event
			for _, ev := range evs {
				if ev.Call {
					pevs = append(pevs, porcupine.Event{ClientId: ev.Thread, Kind: porcupine.CallEvent, Value: ev.In, Id: ev.Id})
				} else {
					pevs = append(pevs, porcupine.Event{ClientId: ev.Thread, Kind: porcupine.ReturnEvent, Value: ev.Out, Id: ev.Id})
				}
			}
			if plin := porcupine.CheckEvents(c20Model, pevs); plin != lin {
				panic(fmt.Sprintf("linearizability checkers disagree on %+v: brute force %v, porcupine %v", evs, lin, plin))
			}
			if e.Deadlock || len(e.ChildPanics) > 0 {
				c.Outcome("crash")
				c.Report("C20/util-crash/"+core.Hash(cs.Target, cs.Threads), "panic", fmt.Sprintf("%s program %v: deadlock=%v panics=%v", cs.Target, threads, e.Deadlock, e.ChildPanics), cs)
				return
			}
			if !lin {
				cc := cs
				cc.Script = e.Script
				var sb strings.Builder
				for _, ev := range evs {
					if ev.Call {
						fmt.Fprintf(&sb, "\n    t%d call   %s(%s,%d)", ev.Thread, ev.In.Op, ev.In.Key, ev.In.Val)
					} else {
						fmt.Fprintf(&sb, "\n    t%d return %s(%s) -> val=%d loaded=%v %s", ev.Thread, ev.In.Op, ev.In.Key, ev.Out.Val, ev.Out.Loaded, ev.Out.Snap)
					}
				}
				c.Outcome(cs.Target + "/not-linearizable")
				c.Report("C20/util-lin/"+core.Hash(cs.Target, cs.Init, cs.Threads), "not-linearizable", fmt.Sprintf("%s (initial keys %v) program %v under schedule %v: no sequential order explains the history%s", cs.Target, cs.Init, threads, e.Script, sb.String()), cc)
				return
			}
			c.Outcome(cs.Target + "/linearizable")
		}
		if c.ReplayCase != nil {
			oracle(scen.ReplaySched(cs.Script, body))
			return
		}
		c.S.Programs++
		for _, n := range keys {
			if n >= 2 {
				c.S.Nontrivial++
				break
			}
		}
		st := scen.ExploreSched(99, 0, c.Expired, body, oracle)
		c.S.Transitions += st.Points
		if st.Truncated {
			c.Cap("utility schedule exploration truncated by the budget")
		}
		if c.S.Programs%300 == 1 {
			c.Sample(map[string]any{"target": cs.Target, "program": threads, "interleavings": st.Execs})
		}
	})
}
