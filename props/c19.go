package props

import (
	"fmt"
	"reflect"
	"sort"
	"strconv"
	"strings"
	"unicode"
	"unicode/utf8"

	cd "github.com/go-kid/ioc/component_definition"
	"github.com/go-kid/ioc/container/processors"

	"verif/internal/core"
	"verif/internal/envx"
	"verif/internal/scen"
)

func init() {
	register(&Driver{
		ID:        "C19",
		Technique: "exhaustive input enumeration: every string up to length 7 over a 13-symbol alphabet (separators, brackets, case pair, multi-byte rune) through the real tag parser (totality), every string up to length 4 as the value of each built-in tag through a real start, and every structured tag of a grammar (value x <=3 arguments x names x <=3 bracketed/plain values) against a reference parser written from the statement (faithfulness)",
		Rule:      "totality: all strings of length <=7 (thorough <=8) over {a,R,r,comma,=,space,[,],{,},(,),é} into NewProperty/TagVal/Args/IsRequired; all strings of length <=4 as wire / func / value / prop / prefix tag values through real starts; faithfulness: value in {'', v, [x,y], a b} x sequences of <=3 (thorough <=4) arguments over names {required, Required, qualifier, x} x {bare, 1..3 values} with values {v, false, [a b], {a,b}, (a=b c)}; non-trivial = tag with a bracketed value, a duplicate name or a required argument. Families added in later rounds (look-ups inside Init, retries after an abandoned attempt, user extension points at every Order, several containers, odd names / types / values) are listed per part in this file and described in MANIFEST.json (level_claimed.text) and DESIGN §7",
		Assumptions: []string{
			"faithfulness is checked on tags with balanced brackets; unbalanced ones are only required not to panic",
			"a point is optional iff the effective required argument lists the value false",
		},
		Parts: []Part{
			{Name: "totality", Run: c19Total, QuickS: 60, ThoroughS: 600},
			{Name: "totality-starts", Run: c19Starts, QuickS: 60, ThoroughS: 600},
			{Name: "faithful", Run: c19Faithful, QuickS: 90, ThoroughS: 1500},
			{Name: "scanned-points", Run: c19Points, QuickS: 30, ThoroughS: 60},
		},
	})
}

var c19Alphabet = []string{"a", "R", "r", ",", "=", " ", "[", "]", "{", "}", "(", ")", "é"}

type c19Case struct {
	Tag string `json:"tag"`
	Use string `json:"use,omitempty"`
}

func c19Strings(maxLen int, yield func(string) bool) {
	var rec func(cur string, n int) bool
	rec = func(cur string, n int) bool {
		if !yield(cur) {
			return false
		}
		if n == maxLen {
			return true
		}
		for _, a := range c19Alphabet {
			if !rec(cur+a, n+1) {
				return false
			}
		}
		return true
	}
	rec("", 0)
}

func c19Total(c *core.Ctx) {
	maxLen := 7
	if c.Thorough() {
		maxLen = 8
	}
	// shard by the first two symbols: a case here is a whole subtree
	type sub struct {
		Prefix string `json:"prefix,omitempty"`
		Tag    string `json:"tag,omitempty"` // replay: one concrete tag
		Replay bool   `json:"replay,omitempty"`
	}
	gen := func(yield func(sub) bool) {
		if !yield(sub{Prefix: ""}) {
			return
		}
		for _, a := range c19Alphabet {
			if !yield(sub{Prefix: a}) {
				return
			}
			for _, b := range c19Alphabet {
				if !yield(sub{Prefix: a + b}) {
					return
				}
			}
		}
	}
	Cases(c, gen, func(c *core.Ctx, s sub) {
		run := func(tag string) bool {
			var shape string
			pan := scen.Protect(func() {
				p := cd.NewProperty(nil, cd.PropertyTypeComponent, "wire", tag)
				_ = p.TagVal
				n := 0
				p.Args().ForEach(func(cd.ArgType, []string) { n++ })
				shape = fmt.Sprintf("args=%d/required=%v", n, p.IsRequired())
				_ = p.Args().String()
			})
			c.S.Evaluations++
			c.S.Transitions++
			if strings.ContainsAny(tag, ",=[{(") {
				c.S.Nontrivial++
			}
			if pan != "" {
				c.Outcome("panic")
				c.Report("C19/total/"+core.Hash(tag), "panic", fmt.Sprintf("parsing tag %q panicked: %s", tag, pan), sub{Tag: tag, Replay: true})
				return true
			}
			c.Outcome(shape)
			return true
		}
		if s.Replay {
			run(s.Tag)
			return
		}
		c.S.Programs++
		nsym := len([]rune(s.Prefix))
		switch {
		case nsym < 2:
			run(s.Prefix) // the short strings themselves
		default:
			var rec func(cur string, n int)
			rec = func(cur string, n int) {
				run(cur)
				if n == maxLen {
					return
				}
				for _, a := range c19Alphabet {
					rec(cur+a, n+1)
				}
			}
			rec(s.Prefix, 2)
		}
		c.S.States = c.S.Evaluations
		if c.S.Programs%40 == 1 {
			c.Sample(map[string]any{"subtree_prefix": s.Prefix, "max_len": maxLen})
		}
	})
}

func c19Starts(c *core.Ctx) {
	maxLen := 4
	gen := func(yield func(c19Case) bool) {
		for _, use := range []string{"wire", "func", "value", "prop", "prefix"} {
			ok := true
			c19Strings(maxLen, func(s string) bool {
				ok = yield(c19Case{s, use})
				return ok
			})
			if !ok {
				return
			}
		}
	}
	tIface := reflect.TypeOf((*scen.Iface)(nil)).Elem()
	Cases(c, gen, func(c *core.Ctx, cs c19Case) {
		ft := tIface
		if cs.Use == "value" || cs.Use == "prop" || cs.Use == "prefix" {
			ft = reflect.TypeOf("")
		}
		h := reflect.New(reflect.StructOf([]reflect.StructField{{Name: "X", Type: ft, Tag: reflect.StructTag(cs.Use + ":" + strconv.Quote(cs.Tag))}}))
		n := &scen.N{Nm: "a"}
		scen.SetRT(n, &scen.RT{})
		o := scen.Start(scen.StartSpec{Ch: envx.Fixed("", nil), Comps: []any{h.Interface(), n}})
		c.S.Evaluations++
		c.S.Programs++
		c.S.States++
		c.S.Transitions++
		if strings.ContainsAny(cs.Tag, ",=[{(") {
			c.S.Nontrivial++
		}
		if o.Panic != "" || o.Abort != "" || len(o.ChildPanics) > 0 {
			c.Outcome(cs.Use + "/panic")
			c.Report("C19/start/"+core.Hash(cs), "panic", fmt.Sprintf("%s:%q made start-up panic / not terminate: %s%s%v", cs.Use, cs.Tag, o.Panic, o.Abort, o.ChildPanics), cs)
			return
		}
		if o.Err != nil {
			c.Outcome(cs.Use + "/error")
		} else {
			c.Outcome(cs.Use + "/ok")
		}
		if c.S.Programs%800 == 1 {
			c.Sample(map[string]any{"tag": cs.Use + ":" + strconv.Quote(cs.Tag), "returned_error": o.Err != nil})
		}
	})
}

// ---- faithfulness against a reference parser written from the statement

type c19Arg struct {
	Name string   `json:"name"`
	Bare bool     `json:"bare,omitempty"`
	Vals []string `json:"values,omitempty"`
}

type c19FCase struct {
	Value string   `json:"value"`
	Args  []c19Arg `json:"args"`
}

func (f c19FCase) text() string {
	var sb strings.Builder
	sb.WriteString(f.Value)
	for _, a := range f.Args {
		sb.WriteString("," + a.Name)
		if !a.Bare {
			sb.WriteString("=" + strings.Join(a.Vals, " "))
		}
	}
	return sb.String()
}

// c19Ref parses a tag as the statement describes it.
func c19Ref(tag string) (value string, args map[string][]string, required bool) {
	split := func(s string, sep byte) []string {
		var out []string
		depth, start := 0, 0
		for i := 0; i < len(s); i++ {
			switch s[i] {
			case '[', '{', '(':
				depth++
			case ']', '}', ')':
				depth--
			default:
				if s[i] == sep && depth == 0 {
					out = append(out, s[start:i])
					start = i + 1
				}
			}
		}
		return append(out, s[start:])
	}
	segs := split(tag, ',')
	value = segs[0]
	args = map[string][]string{}
	for _, seg := range segs[1:] {
		name, vals := seg, []string{""}
		if i := strings.IndexByte(seg, '='); i >= 0 {
			name, vals = seg[:i], split(seg[i+1:], ' ')
		}
		if name == "" {
			continue
		}
		// only the case of the first letter (a whole rune) is immaterial
		if r, size := utf8.DecodeRuneInString(name); r != utf8.RuneError {
			name = string(unicode.ToUpper(r)) + name[size:]
		}
		args[name] = vals // a later duplicate wins
	}
	required = true
	for _, v := range args["Required"] {
		if v == "false" {
			required = false
		}
	}
	return
}

// c19Rare: argument options added in later rounds (empty items, groups nested in a group of the
// same kind).
func c19Rare(a c19Arg) bool {
	for _, v := range a.Vals {
		if v == "" || strings.HasPrefix(v, "[[") || strings.HasPrefix(v, "((") {
			return true
		}
	}
	return false
}

func c19Faithful(c *core.Ctx) {
	maxArgs := 3
	if c.Thorough() {
		maxArgs = 4
	}
	gen := func(yield func(c19FCase) bool) {
		// groups nested inside a group of the same kind, with a separator after the inner group
		vals := []string{"v", "false", "[a b]", "{a,b}", "(a=b c)", "[[a b] c,d]", "((a,b),c d)"}
		var argOpts []c19Arg
		for _, n := range []string{"required", "Required", "qualifier", "x"} {
			argOpts = append(argOpts, c19Arg{Name: n, Bare: true})
			for _, v1 := range vals {
				argOpts = append(argOpts, c19Arg{Name: n, Vals: []string{v1}})
			}
			if n == "required" || n == "Required" {
				// only the literal false makes a point optional: boolean look-alikes do not
				for _, v1 := range []string{"0", "f", "F", "FALSE", "False", "true", "no"} {
					argOpts = append(argOpts, c19Arg{Name: n, Vals: []string{v1}})
				}
			}
			// empty items (nothing after '=', a leading, trailing or doubled space) are items too
			for _, vs := range [][]string{{"v", "false"}, {"[a b]", "v"}, {"{a,b}", "(a=b c)", "false"}, {"false", "[a b]"}, {""}, {"v", ""}, {"", "v"}, {"v", "", "false"}} {
				argOpts = append(argOpts, c19Arg{Name: n, Vals: vs})
			}
		}
		var rec func(value string, cur []c19Arg) bool
		rec = func(value string, cur []c19Arg) bool {
			if !yield(c19FCase{value, append([]c19Arg{}, cur...)}) {
				return false
			}
			if len(cur) == maxArgs || (len(cur) == 3 && strings.HasPrefix(value, "[[")) {
				return true
			}
			for _, a := range argOpts {
				// a fourth argument (thorough) only from the plain alphabet: empty items and same-kind
				// nesting are covered in every position of tags with up to three arguments
				if len(cur) >= 3 && c19Rare(a) {
					continue
				}
				if !rec(value, append(cur[:len(cur):len(cur)], a)) {
					return false
				}
			}
			return true
		}
		for _, value := range []string{"", "v", "[x,y]", "a b", "[[1,2],[3,4]]"} {
			if !rec(value, nil) {
				return
			}
		}
		// argument names with inner word boundaries, inner capitals and non-ASCII letters: only the
		// first letter is case-insensitive
		var exotic []c19Arg
		for _, n := range []string{"max-size", "Max-size", "max-Size", "a.b", "a.B", "a/b", "x y", "é", "éa", "Éa", "_x", "9x", " x", "x ", " required",
			// letters whose upper-case form is encoded with another number of bytes (shorter, longer), also as one-letter names
			"ıd", "ſx", "ⱥb", "ɐb", "ɐc", "ɐ", "ı"} {
			exotic = append(exotic, c19Arg{Name: n, Bare: true}, c19Arg{Name: n, Vals: []string{"v"}}, c19Arg{Name: n, Vals: []string{"false"}})
		}
		for _, value := range []string{"", "v"} {
			for _, a := range exotic {
				if !yield(c19FCase{value, []c19Arg{a}}) {
					return
				}
				for _, b := range exotic {
					if !yield(c19FCase{value, []c19Arg{a, b}}) {
						return
					}
				}
			}
		}
	}
	Cases(c, gen, func(c *core.Ctx, cs c19FCase) {
		tag := cs.text()
		wv, wargs, wreq := c19Ref(tag)
		var gv string
		gargs := map[string][]string{}
		var greq bool
		pan := scen.Protect(func() {
			p := cd.NewProperty(nil, cd.PropertyTypeComponent, "wire", tag)
			gv = p.TagVal
			p.Args().ForEach(func(t cd.ArgType, vs []string) { gargs[string(t)] = vs })
			greq = p.IsRequired()
		})
		c.S.Evaluations++
		c.S.Programs++
		c.S.States++
		c.S.Transitions++
		if strings.ContainsAny(tag, "[{(") || strings.Contains(strings.ToLower(tag), "required") {
			c.S.Nontrivial++
		}
		key := "C19/faithful/" + core.Hash(tag)
		show := func(m map[string][]string) string {
			var ks []string
			for k := range m {
				ks = append(ks, k)
			}
			sort.Strings(ks)
			var sb strings.Builder
			for _, k := range ks {
				fmt.Fprintf(&sb, "%s=%q ", k, m[k])
			}
			return sb.String()
		}
		switch {
		case pan != "":
			c.Outcome("panic")
			c.Report(key, "panic", fmt.Sprintf("parsing %q panicked: %s", tag, pan), cs)
		case gv != wv:
			c.Outcome("value-differs")
			c.Report(key, "wrong-value", fmt.Sprintf("tag %q: value part %q, want %q (text before the first top-level comma)", tag, gv, wv), cs)
		case show(gargs) != show(wargs):
			c.Outcome("args-differ")
			c.Report(key, "wrong-arguments", fmt.Sprintf("tag %q: arguments {%s}, want {%s}", tag, show(gargs), show(wargs)), cs)
		case greq != wreq:
			c.Outcome("required-differs")
			c.Report(key, "wrong-required", fmt.Sprintf("tag %q: IsRequired()=%v, want %v (only an explicit required=false makes a point optional)", tag, greq, wreq), cs)
		default:
			// the parsed arguments are independent values: extending one of them afterwards (what a
			// user post-processor does through AddArg) changes that one only
			bad := ""
			scen.Protect(func() {
				p := cd.NewProperty(nil, cd.PropertyTypeComponent, "wire", tag)
				// describing the arguments (what logging and error texts do) observes, it does not change
				_ = p.Args().String()
				_ = p.Args().String()
				after := map[string][]string{}
				p.Args().ForEach(func(t cd.ArgType, vs []string) { after[string(t)] = vs })
				if show(after) != show(wargs) {
					bad = fmt.Sprintf("after describing the arguments with String() they are {%s}, want {%s}", show(after), show(wargs))
					return
				}
				// every look-up by name matches regardless of the case of the first letter
				for k, vs := range wargs {
					r, size := utf8.DecodeRuneInString(k)
					if r == utf8.RuneError {
						continue
					}
					for _, spelled := range []string{k, string(unicode.ToLower(r)) + k[size:]} {
						if fr, _ := utf8.DecodeRuneInString(spelled); unicode.ToUpper(fr) != r {
							continue // the lower-case form of this letter does not map back to it
						}
						found, ok := p.Args().Find(cd.ArgType(spelled))
						if !ok || fmt.Sprintf("%q", found) != fmt.Sprintf("%q", vs) {
							bad = fmt.Sprintf("Find(%q) = %q (found: %v), want %q", spelled, found, ok, vs)
							return
						}
						if !p.Args().Has(cd.ArgType(spelled)) {
							bad = fmt.Sprintf("Has(%q) is false although the argument was given", spelled)
							return
						}
						for _, v := range vs {
							if !p.Args().Has(cd.ArgType(spelled), v) {
								bad = fmt.Sprintf("Has(%q, %q) is false although the argument %s carries that value", spelled, v, k)
								return
							}
						}
						if p.Args().Has(cd.ArgType(spelled), "no-such-value-zz") {
							bad = fmt.Sprintf("Has(%q, a value it does not carry) is true", spelled)
							return
						}
					}
				}
				model := map[string][]string{}
				for k, v := range wargs {
					model[k] = append([]string{}, v...)
				}
				var names []string
				for k := range model {
					names = append(names, k)
				}
				sort.Strings(names)
				for _, k := range names {
					p.AddArg(cd.ArgType(k), "zz")
					model[k] = append(model[k], "zz")
					now := map[string][]string{}
					p.Args().ForEach(func(t cd.ArgType, vs []string) { now[string(t)] = vs })
					if show(now) != show(model) && bad == "" {
						bad = fmt.Sprintf("after AddArg(%s, zz) the arguments are {%s}, want {%s}", k, show(now), show(model))
					}
				}
				if req := p.IsRequired(); bad == "" {
					want := true
					for _, v := range model["Required"] {
						if v == "false" {
							want = false
						}
					}
					if req != want {
						bad = fmt.Sprintf("after extending every argument IsRequired()=%v, want %v", req, want)
					}
				}
			})
			if bad != "" {
				c.Outcome("arguments-alias")
				c.Report(key, "wrong-arguments", fmt.Sprintf("tag %q: %s", tag, bad), cs)
				break
			}
			c.Outcome(fmt.Sprintf("ok/args=%d/required=%v", len(wargs), wreq))
		}
		if c.S.Programs%20000 == 1 {
			c.Sample(map[string]any{"tag": tag, "value": wv, "arguments": show(wargs), "required": wreq})
		}
	})
}

// ---- the required/optional clause for every way a tag reaches the container

type c19PointCase struct {
	Tag     string `json:"tag"`     // argument part of the tag (the value part is empty or the tag's key)
	Scanner string `json:"scanner"` // wire | user-tag | user-extract
	ReqDflt bool   `json:"scanner_required_default"`
}

// c19UserScanner scans the struct tag `inj` (or hands out tags through ExtractHandler) as a
// component-typed injection point that no processor resolves.
type c19UserScanner struct {
	processors.DefaultTagScanDefinitionRegistryPostProcessor
}

func (*c19UserScanner) Naming() string { return "zz-c19scanner" }

func c19Points(c *core.Ctx) {
	gen := func(yield func(c19PointCase) bool) {
		var args []string
		for _, r := range []string{"", ",required", ",required=true", ",required=false", ",required=False", ",required=0", ",Required=false", ",required=false true", ",required=true false", ",required=[false]"} {
			for _, q := range []string{"", ",qualifier=x", ",x=false"} {
				args = append(args, r+q, q+r)
			}
		}
		seen := map[string]bool{}
		for _, a := range args {
			if seen[a] {
				continue
			}
			seen[a] = true
			if !yield(c19PointCase{Tag: a, Scanner: "wire", ReqDflt: true}) {
				return
			}
			for _, sc := range []string{"user-tag", "user-extract"} {
				for _, d := range []bool{true, false} {
					if !yield(c19PointCase{Tag: a, Scanner: sc, ReqDflt: d}) {
						return
					}
				}
			}
		}
	}
	tMissing := reflect.TypeOf((*scen.Missing)(nil)).Elem()
	Cases(c, gen, func(c *core.Ctx, cs c19PointCase) {
		tagName := "wire"
		if cs.Scanner != "wire" {
			tagName = "inj"
		}
		field := reflect.StructField{Name: "X", Type: tMissing}
		if cs.Scanner != "user-extract" {
			field.Tag = reflect.StructTag(tagName + ":" + strconv.Quote(cs.Tag))
		}
		ht := reflect.StructOf([]reflect.StructField{field})
		h := reflect.New(ht)
		comps := []any{h.Interface()}
		if cs.Scanner != "wire" {
			s := &c19UserScanner{}
			s.NodeType = cd.PropertyTypeComponent
			s.Required = cs.ReqDflt
			if cs.Scanner == "user-tag" {
				s.Tag = "inj"
			} else {
				s.ExtractHandler = func(meta *cd.Meta, f *cd.Field) (string, string, bool) {
					if meta.Type != reflect.PointerTo(ht) || f.StructField.Name != "X" {
						return "", "", false
					}
					return "inj", cs.Tag, true
				}
			}
			comps = append(comps, s)
		}
		o := scen.Start(scen.StartSpec{Ch: envx.Fixed("", nil), Comps: comps})
		c.S.Evaluations++
		c.S.Programs++
		c.S.States++
		c.S.Transitions += int64(o.Trace.Calls)
		c.S.Nontrivial++
		_, _, wantReq := c19Ref(cs.Tag)
		key := "C19/point/" + core.Hash(cs)
		desc := fmt.Sprintf("point %s:%q without any candidate, scanned by %s (scanner default required=%v)", tagName, cs.Tag, cs.Scanner, cs.ReqDflt)
		switch {
		case o.Panic != "" || o.Abort != "" || len(o.ChildPanics) > 0:
			c.Outcome("panic")
			c.Report(key, "panic", desc+": start-up panicked / did not terminate: "+o.Panic+o.Abort, cs)
		case wantReq && o.Err == nil:
			c.Outcome("required-but-started")
			c.Report(key, "wrong-required", desc+": the point is required (only an explicit required=false makes a point optional) but start-up succeeded with the field empty", cs)
		case !wantReq && o.Err != nil:
			c.Outcome("optional-but-failed")
			c.Report(key, "wrong-required", desc+": the point is optional but start-up failed: "+scen.FirstLine(o.Err), cs)
		case !h.Elem().Field(0).IsNil():
			c.Outcome("set")
			c.Report(key, "wrong-required", desc+": the field was set although nothing can satisfy it", cs)
		default:
			c.Outcome(fmt.Sprintf("%s/required=%v", cs.Scanner, wantReq))
		}
		if c.S.Programs%50 == 1 {
			c.Sample(map[string]any{"case": cs, "required": wantReq, "failed": o.Err != nil})
		}
	})
}
