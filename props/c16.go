package props

import (
	"fmt"
	"strings"

	"github.com/go-kid/ioc/app"
	cd "github.com/go-kid/ioc/component_definition"
	"github.com/go-kid/ioc/configure"
	"github.com/go-kid/ioc/configure/binder"
	"github.com/go-kid/ioc/container/processors"

	"verif/internal/core"
	"verif/internal/envx"
	"verif/internal/scen"
)

func init() {
	register(&Driver{
		ID:              "C16",
		HangIsViolation: true,
		Technique:       "exhaustive enumeration of tag texts (sequences of literal / placeholder segments incl. defaults, nesting, repetition) x configurations (values that themselves contain placeholders, incl. self- and mutually-referential ones) x tag kinds, each a real start; reference evaluator for acyclic cases, termination decided by a Configure.Get-call budget (no clock)",
		Rule:            "tag = <=2 (thorough <=3) segments over {literal, ${a}, ${b}, ${x} absent, ${x:d}, ${a:d}, ${m:d} empty map, ${l:d} empty list, ${${k}} nested key, ${x:${a}} nested default, ${x:${x:e}}}; configuration a in {absent, v, ${b}, ${a}, p${b}q, ${a}x, 7, empty string, ${c}-${a}, ${c}${b}, ${a${c}}, #{1+2}, n#{'v'+'w'} (an expression text: the tag must then behave as one written with that text - a second start is the reference)} with c a plain value x b in {absent, w, ${a}, ${b}} x k in {a, b}; observed through a custom tag (substituted text seen by a recording processor), a value tag bound to a string field and a by-name wire tag; non-trivial = tag with >=2 placeholders, nesting, or a configured value containing a placeholder. Families added in later rounds (look-ups inside Init, retries after an abandoned attempt, user extension points at every Order, several containers, odd names / types / values) are listed per part in this file and described in MANIFEST.json (level_claimed.text) and DESIGN §7",
		Assumptions: []string{
			"values with unbalanced ${ fragments are outside the family; number-like defaults belong to C17",
			"cyclic or self-growing references must end in an error or an empty value within 5000 Configure.Get calls per start",
		},
		Parts: []Part{{Name: "placeholders", Run: c16Run, QuickS: 240, ThoroughS: 1500}},
	})
}

type c16Case struct {
	Tag  string `json:"tag"`
	A    any    `json:"a"`
	B    any    `json:"b"`
	K    string `json:"k"`
	Kind string `json:"kind"` // custom value wire
	// MapBinder: the configuration is served by a user-supplied binder (a plain nested map)
	// instead of the built-in viper binder
	MapBinder bool `json:"user_binder,omitempty"`
}

// c16MapBinder is a user-supplied configure.Binder over a nested map: it hands values out as
// they are (an empty map is an empty map).
type c16MapBinder struct {
	m         map[string]any
	n, budget int
}

func (b *c16MapBinder) SetConfig(c []byte) error { return nil }
func (b *c16MapBinder) Set(path string, val any) { b.m[path] = val }
func (b *c16MapBinder) Get(path string) any {
	b.n++
	if b.n > b.budget {
		panic(scen.BudgetExceeded{Msg: fmt.Sprintf("more than %d Configure.Get calls in one start (placeholder resolution does not terminate)", b.budget)})
	}
	if path == "" {
		return b.m
	}
	var cur any = b.m
	for _, k := range strings.Split(path, ".") {
		m, ok := cur.(map[string]any)
		if !ok {
			return nil
		}
		if cur, ok = m[k]; !ok {
			return nil
		}
	}
	return cur
}

type c16Holder struct {
	F string
	V string
	W scen.Iface
}

// c16Rec records the substituted tag text of the custom tag (ordered class: it runs after every
// priority-ordered processor, i.e. after placeholder substitution).
type c16Rec struct {
	processors.DefaultInstantiationAwareComponentPostProcessor
	tagVal string
	seen   bool
}

func (r *c16Rec) Order() int { return 1 }
func (r *c16Rec) PostProcessAfterInstantiation(c any, n string) (bool, error) {
	return true, nil
}
func (r *c16Rec) PostProcessProperties(ps []*cd.Property, c any, n string) ([]*cd.Property, error) {
	for _, p := range ps {
		if p.Tag == "mytag" {
			r.tagVal, r.seen = p.TagVal, true
		}
	}
	return nil, nil
}

type c16Scanner struct {
	processors.DefaultTagScanDefinitionRegistryPostProcessor
}

type c16Binder struct {
	*binder.ViperBinder
	n, budget int
}

func (c *c16Binder) Get(path string) any {
	c.n++
	if c.n > c.budget {
		panic(scen.BudgetExceeded{Msg: fmt.Sprintf("more than %d Configure.Get calls in one start (placeholder resolution does not terminate)", c.budget)})
	}
	return c.ViperBinder.Get(path)
}

type c16RefErr struct{ msg string }

func c16Format(v any) string {
	if s, ok := v.(string); ok {
		return s
	}
	return fmt.Sprint(v)
}

// c16Eval is the reference evaluator written from the statement: innermost placeholders first,
// configured text is evaluated again (key-visit stack detects cycles), absent key / empty map /
// empty list => default (or empty).
func c16Eval(text string, cfg map[string]any, stack []string) (string, *c16RefErr) {
	var out strings.Builder
	i := 0
	for i < len(text) {
		if strings.HasPrefix(text[i:], "${") {
			d := 0
			j := i + 2
			for ; j < len(text); j++ {
				if strings.HasPrefix(text[j:], "${") || strings.HasPrefix(text[j:], "#{") {
					d++
					j++
					continue
				}
				if text[j] == '}' {
					if d == 0 {
						break
					}
					d--
				}
			}
			if j >= len(text) {
				out.WriteString(text[i:])
				break
			}
			inner, err := c16Eval(text[i+2:j], cfg, stack)
			if err != nil {
				return "", err
			}
			key, def, hasDef := inner, "", false
			if k := strings.IndexByte(inner, ':'); k >= 0 {
				key, def, hasDef = inner[:k], inner[k+1:], true
			}
			v, present := cfg[key]
			if m, ok := v.(map[string]any); ok && len(m) == 0 {
				present = false
			}
			if l, ok := v.([]any); ok && len(l) == 0 {
				present = false
			}
			rep := ""
			if present {
				for _, s := range stack {
					if s == key {
						return "", &c16RefErr{"cycle at " + key}
					}
				}
				r, err := c16Eval(c16Format(v), cfg, append(stack[:len(stack):len(stack)], key))
				if err != nil {
					return "", err
				}
				rep = r
			} else if hasDef {
				rep = def
			}
			out.WriteString(rep)
			i = j + 1
			continue
		}
		out.WriteByte(text[i])
		i++
	}
	return out.String(), nil
}

func c16Gen(c *core.Ctx) func(yield func(c16Case) bool) {
	return func(yield func(c16Case) bool) {
		segs := []string{"p", "${a}", "${b}", "${x}", "${x:d}", "${a:d}", "${m:d}", "${l:d}", "${${k}}", "${x:${a}}", "${x:${x:e}}", "{q}", "${${${k2}}}", "${x:${x:${x:e}}}"}
		var tags []string
		tagSegs := map[string][]string{}
		add := func(ss ...string) {
			t := strings.Join(ss, "")
			if _, dup := tagSegs[t]; !dup {
				tagSegs[t] = ss
				tags = append(tags, t)
			}
		}
		// an expression as a placeholder's default (written in the tag)
		// defaults that start with a dash (the shell's ${key:-default} form means nothing here: the dash
		// belongs to the default), alone and doubled
		for _, s := range []string{"${x:-d}", "${x:-}", "${x:--d}", "${a:-d}", "${m:-d}"} {
			add(s)
			add("p", s)
			add(s, "${b}")
			add("${a}", s)
		}
		for _, s := range []string{"${x:#{1+2}}", "${a:#{1+2}}", "${x:n#{'v'+'w'}}", "${${k}:#{1+2}}"} {
			add(s)
			add("p", s)
			add(s, "${b}")
			add("${a}", s)
		}
		for _, s1 := range segs {
			add(s1)
			for _, s2 := range segs {
				add(s1, s2)
				for _, s3 := range segs {
					add(s1, s2, s3)
				}
			}
		}
		// "" is a configured value, not an absent key; ${c} always resolves to plain text
		aVals := []any{nil, "v", "${b}", "${a}", "p${b}q", "${a}x", 7, "", "${c}-${a}", "${c}${b}", "${a${c}}", "#{1+2}", "n#{'v'+'w'}"}
		bVals := []any{nil, "w", "${a}", "${b}"}
		for _, kind := range []string{"custom", "value", "wire"} {
			for _, av := range aVals {
				for _, bv := range bVals {
					for _, kv := range []string{"a", "b"} {
						for _, tag := range tags {
							if !c.Thorough() && kind != "custom" && len(tagSegs[tag]) > 2 {
								continue
							}
							if s, ok := av.(string); ok && !c.Thorough() && strings.Contains(s, "#{") && len(tagSegs[tag]) > 2 {
								continue
							}
							if !yield(c16Case{Tag: tag, A: av, B: bv, K: kv, Kind: kind}) {
								return
							}
							// the forms that touch an empty map / list also through a user-supplied binder
							if (strings.Contains(tag, "${m") || strings.Contains(tag, "${l")) && len(tagSegs[tag]) <= 2 &&
								!yield(c16Case{Tag: tag, A: av, B: bv, K: kv, Kind: kind, MapBinder: true}) {
								return
							}
						}
					}
				}
			}
		}
	}
}

func c16Run(c *core.Ctx) {
	Cases(c, c16Gen(c), func(c *core.Ctx, cs c16Case) {
		cfg := map[string]any{"k": cs.K, "k2": "k", "m": map[string]any{}, "l": []any{}, "c": "z", "az": "${a}"}
		norm := func(v any) any {
			if f, ok := v.(float64); ok { // JSON round trip of a replay file
				return int(f)
			}
			return v
		}
		if cs.A != nil {
			cfg["a"] = norm(cs.A)
		}
		if cs.B != nil {
			cfg["b"] = norm(cs.B)
		}
		want, rerr := c16Eval(cs.Tag, cfg, nil)
		var h *c16Holder
		var rec *c16Rec
		var cb *c16Binder
		var mb *c16MapBinder
		targets := map[string]*scen.N{}
		start := func(tagText string) *scen.StartObs {
			h = &c16Holder{}
			sc := &c16Scanner{}
			rec = &c16Rec{}
			switch cs.Kind {
			case "custom":
				sc.NodeType = "custom"
			case "value":
				sc.NodeType = cd.PropertyTypeConfiguration
			case "wire":
				sc.NodeType = cd.PropertyTypeComponent
			}
			sc.ExtractHandler = func(m *cd.Meta, f *cd.Field) (string, string, bool) {
				if _, ok := m.Raw.(*c16Holder); !ok {
					return "", "", false
				}
				switch {
				case cs.Kind == "custom" && f.StructField.Name == "F":
					return "mytag", tagText, true
				case cs.Kind == "value" && f.StructField.Name == "V":
					return "value", tagText + ",required=false", true
				case cs.Kind == "wire" && f.StructField.Name == "W":
					return "wire", tagText + ",required=false", true
				}
				return "", "", false
			}
			vb := binder.NewViperBinder("yaml")
			for k, v := range cfg {
				vb.Set(k, v)
			}
			cb = &c16Binder{ViperBinder: vb, budget: 5000}
			mb = &c16MapBinder{m: cfg, budget: 5000}
			var theBinder configure.Binder = cb
			if cs.MapBinder {
				theBinder = mb
			}
			comps := []any{h, sc, rec}
			// by-name targets for the wire kind: components named after the possible results
			if cs.Kind == "wire" {
				for _, nm := range []string{"v", "w", "p", "d", "e", "pwq", "vw", "wv", "vv", "ww", "3", "nvw"} {
					n := &scen.N{Nm: nm}
					scen.SetRT(n, &scen.RT{})
					targets[nm] = n
					comps = append(comps, n)
				}
			}
			return scen.Start(scen.StartSpec{Ch: envx.Fixed("", nil), Comps: comps, Opts: []app.SettingOption{app.SetConfigBinder(theBinder), app.SetConfigLoader()}})
		}
		boundOf := func() string {
			switch cs.Kind {
			case "custom":
				return rec.tagVal
			case "value":
				return h.V
			}
			if h.W != nil {
				return h.W.ID()
			}
			return "-"
		}
		// the replacement text carries an expression: "the tag is then processed as if it had been
		// written with the replacement text" - a second start with exactly that text in the tag is
		// the reference for what the first one must bind
		viaExpr, litBound, litOK := false, "", false
		if rerr == nil && strings.Contains(want, "#{") {
			viaExpr = true
			lo := start(want)
			litBound, litOK = boundOf(), lo.OK()
			if lo.Panic != "" || lo.Abort != "" {
				viaExpr = false
			}
		}
		o := start(cs.Tag)
		cb.n += mb.n
		c.S.Evaluations++
		c.S.Programs++
		c.S.States++
		c.S.Transitions += int64(cb.n) + 1
		if strings.Count(cs.Tag, "${") >= 2 || strings.Contains(fmt.Sprint(cs.A, cs.B), "${") {
			c.S.Nontrivial++
		}
		c.S.Extra["max_get_calls_terminating"] = max64(c.S.Extra["max_get_calls_terminating"], int64(cb.n))
		key := "C16/" + cs.Kind + "/" + core.Hash(cs)
		desc := fmt.Sprintf("%s tag %q with a=%v b=%v k=%v", cs.Kind, cs.Tag, cs.A, cs.B, cs.K)
		if cs.MapBinder {
			desc += " (user-supplied binder)"
		}
		if o.Abort != "" {
			c.S.Extra["max_get_calls_terminating"] = 0
			c.Outcome(cs.Kind + "/hang")
			c.Report(key, "non-termination", desc+": "+o.Abort, cs)
			return
		}
		if o.Panic != "" {
			c.Outcome(cs.Kind + "/panic")
			c.Report(key, "panic", desc+": "+o.Panic, cs)
			return
		}
		if rerr != nil {
			// cyclic or self-growing: an error or an empty value, never a non-empty binding
			bound := ""
			switch cs.Kind {
			case "custom":
				bound = rec.tagVal
			case "value":
				bound = h.V
			case "wire":
				if h.W != nil {
					bound = h.W.ID()
				}
			}
			if o.Err == nil && bound != "" {
				c.Outcome(cs.Kind + "/cyclic-bound")
				c.Report(key, "cyclic-bound", fmt.Sprintf("%s: circular reference (%s) but start-up succeeded binding %q", desc, rerr.msg, bound), cs)
				return
			}
			c.Outcome(cs.Kind + "/cyclic-rejected")
			return
		}
		if viaExpr {
			if got := boundOf(); o.OK() != litOK || (litOK && got != litBound) {
				c.Outcome(cs.Kind + "/expression-mismatch")
				c.Report(key, "not-as-written", fmt.Sprintf("%s: the replacement text is %q; a tag written with that text binds %q (started: %v), this tag binds %q (started: %v, err=%v)", desc, want, litBound, litOK, got, o.OK(), scen.FirstLine(o.Err)), cs)
				return
			}
			c.Outcome(cs.Kind + "/as-written-with-the-replacement-text")
			return
		}
		switch cs.Kind {
		case "custom":
			if o.Err != nil || !rec.seen || rec.tagVal != want {
				c.Outcome("custom/mismatch")
				c.Report(key, "wrong-substitution", fmt.Sprintf("%s: substituted text %q (err=%v), reference %q", desc, rec.tagVal, scen.FirstLine(o.Err), want), cs)
				return
			}
		case "value":
			if o.Err != nil || h.V != want {
				c.Outcome("value/mismatch")
				c.Report(key, "wrong-substitution", fmt.Sprintf("%s: bound %q (err=%v), reference %q", desc, h.V, scen.FirstLine(o.Err), want), cs)
				return
			}
		case "wire":
			got := "-"
			if h.W != nil {
				got = h.W.ID()
			}
			exp := "-"
			if _, ok := targets[want]; ok {
				exp = want
			} else if want == "" {
				// empty name: by-type injection among the targets (any), out of scope here
				c.Outcome("wire/empty-name")
				return
			}
			if o.Err != nil || got != exp {
				c.Outcome("wire/mismatch")
				c.Report(key, "wrong-substitution", fmt.Sprintf("%s: by-name point resolved to %q (err=%v), reference name %q", desc, got, scen.FirstLine(o.Err), want), cs)
				return
			}
		}
		c.Outcome(cs.Kind + "/as-reference")
		if c.S.Programs%2500 == 1 {
			c.Sample(map[string]any{"case": cs, "reference": want, "get_calls": cb.n})
		}
	})
}

func max64(a, b int64) int64 {
	if a > b {
		return a
	}
	return b
}
