package props

import (
	"fmt"

	"github.com/go-kid/ioc/app"
	"github.com/go-kid/ioc/definition"
	"github.com/go-kid/ioc/util/vsync"

	"verif/internal/core"
	"verif/internal/scen"
)

// Several containers in one process, each registering its own instances of the same types under
// the same names: every interleaving of their operation sequences (start; look a lazily created
// component up). A singleton is one object per container - never an object of another container.

type c1I interface{ Owner() int }

type c1X struct {
	App int
	Y   *c1Y  `wire:""`
	Yn  c1I   `wire:"why"`
	All []c1I `wire:""`
}

func (x *c1X) Owner() int { return x.App }

type c1Y struct {
	App int
	X   *c1X `wire:""`
}

func (y *c1Y) Owner() int     { return y.App }
func (y *c1Y) Naming() string { return "why" }

type c1Z struct {
	definition.LazyInitComponent
	App int
	X   *c1X  `wire:""`
	Y   c1I   `wire:"why"`
	All []c1I `wire:""`
}

func (z *c1Z) Naming() string { return "zed" }

func c01Apps(c *core.Ctx) {
	gen := func(yield func(c17AppsCase) bool) {
		for _, n := range []int{2, 3} {
			var rec func(cur []string, next []int) bool
			rec = func(cur []string, next []int) bool {
				done := true
				for i := 0; i < n; i++ {
					if next[i] < 2 {
						done = false
						nn := append([]int{}, next...)
						nn[i]++
						if !rec(append(cur[:len(cur):len(cur)], fmt.Sprintf("%c%d", "sl"[next[i]], i)), nn) {
							return false
						}
					}
				}
				if done {
					return yield(c17AppsCase{Apps: n, Ops: append([]string{}, cur...)})
				}
				return true
			}
			if !rec(nil, make([]int, n)) {
				return
			}
		}
	}
	Cases(c, gen, func(c *core.Ctx, cs c17AppsCase) {
		apps := make([]*app.App, cs.Apps)
		xs, ys, zs := make([]*c1X, cs.Apps), make([]*c1Y, cs.Apps), make([]*c1Z, cs.Apps)
		key := "C01/containers/" + core.Hash(cs)
		c.S.Programs++
		c.S.Nontrivial++
		c.S.Evaluations++
		c.S.States++
		c.S.Transitions += int64(len(cs.Ops))
		bad := ""
		owners := func(l []c1I) string {
			s := ""
			for _, e := range l {
				s += fmt.Sprint(e.Owner())
			}
			return s
		}
		checkEager := func(i int) {
			x, y := xs[i], ys[i]
			switch {
			case x.Y != y || x.Yn != c1I(y) || y.X != x:
				bad = fmt.Sprintf("container %d: the cycle x<->y is not wired to this container's own instances (x.Y owner %v, y.X owner %v)", i, ownerOf(x.Y), ownerOf(y.X))
			case len(x.All) != 1 || x.All[0] != c1I(y):
				bad = fmt.Sprintf("container %d: x.All holds components of containers [%s], want exactly this container's y", i, owners(x.All))
			}
			for name, want := range map[string]any{"why": y, "github.com/go-kid/ioc/app/App": apps[i]} {
				if got, err := apps[i].GetComponentByName(name); err != nil || got != want {
					bad = fmt.Sprintf("container %d: by-name look-up of %s does not return this container's instance (err=%v)", i, name, err)
				}
			}
		}
		vsync.Chooser, vsync.OrderHook = nil, nil
		vsync.Begin()
		pan := scen.Protect(func() {
			for _, op := range cs.Ops {
				var i int
				fmt.Sscan(op[1:], &i)
				if op[0] == 's' {
					apps[i], xs[i], ys[i], zs[i] = app.NewApp(), &c1X{App: i}, &c1Y{App: i}, &c1Z{App: i}
					if err := apps[i].Run(app.SetComponents(xs[i], ys[i], zs[i])); err != nil {
						bad = fmt.Sprintf("start of container %d failed: %s", i, scen.FirstLine(err))
						return
					}
				} else {
					got, err := apps[i].GetComponentByName("zed")
					z := zs[i]
					switch {
					case err != nil || got != any(z):
						bad = fmt.Sprintf("container %d: look-up of its lazy component: err=%v, own instance=%v", i, scen.FirstLine(err), got == any(z))
					case z.X != xs[i] || z.Y != c1I(ys[i]):
						bad = fmt.Sprintf("container %d: its lazily created component is wired to x of container %v and y of container %v", i, ownerOf(z.X), ownerOf(z.Y))
					case len(z.All) != 2 || owners(z.All) != fmt.Sprintf("%d%d", i, i):
						bad = fmt.Sprintf("container %d: the slice of its lazily created component holds components of containers [%s]", i, owners(z.All))
					}
				}
				if bad == "" {
					checkEager(i)
				}
				if bad != "" {
					return
				}
			}
			for i := range apps {
				if checkEager(i); bad != "" {
					return
				}
			}
		})
		vsync.End()
		switch {
		case pan != "":
			c.Outcome("panic")
			c.Report(key, "panic", fmt.Sprintf("operations %v panicked: %s", cs.Ops, pan), cs)
		case bad != "":
			c.Outcome("foreign-instance")
			c.Report(key, "shared-instance", fmt.Sprintf("operations %v: %s", cs.Ops, bad), cs)
		default:
			c.Outcome(fmt.Sprintf("containers=%d/independent", cs.Apps))
		}
		c.Sample(map[string]any{"case": cs})
	})
}

func ownerOf(v any) any {
	switch x := v.(type) {
	case *c1X:
		if x != nil {
			return x.App
		}
	case *c1Y:
		if x != nil {
			return x.App
		}
	case c1I:
		if x != nil {
			return x.Owner()
		}
	}
	return "none"
}
