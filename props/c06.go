package props

import (
	"fmt"
	"github.com/go-kid/ioc/container/processors"
	"sort"
	"strings"

	"verif/internal/core"
	"verif/internal/envx"
	"verif/internal/scen"
)

func init() {
	register(&Driver{
		ID:        "C06",
		Technique: "exhaustive enumeration of provider populations over a typed universe (5^6 populations) x consumer field kinds x iteration orders, each a real start; admissible-set reference model per injection point (soundness and completeness)",
		Rule:      "populations = per universe type {absent, default-named, named, default+named, two named} (6 types: exact pointer type, 3 interfaces, same-underlying-struct twin, lazy provider); consumer carries every field kind (*T, I, []*T, []I, any, []any, five func-tag forms), optional and required variants; non-trivial = some point has >= 2 admissible providers or none. Families added in later rounds (look-ups inside Init, retries after an abandoned attempt, user extension points at every Order, several containers, odd names / types / values) are listed per part in this file and described in MANIFEST.json (level_claimed.text) and DESIGN §7",
		Assumptions: []string{
			"methods with parameters or non-comparable results under `returns` are outside the documented tag",
			"ties between several admissible providers of a single-valued point are decided by C08/C10, here any admissible one is accepted",
		},
		Parts: []Part{{Name: "typed", Run: c06Run, QuickS: 90, ThoroughS: 1200}, {Name: "named-pointer-types", Run: c06Named, Workers: 2, QuickS: 30, ThoroughS: 60}, {Name: "re-registered-definitions", Run: c06ReReg, Workers: 2, QuickS: 30, ThoroughS: 60}, {Name: "func-star-with-parameters", Run: c06FuncStar, Workers: 2, QuickS: 30, ThoroughS: 60}},
	})
}

// consumer with every field kind, all optional so that one start observes all of them
type c6All struct {
	PA   *scen.TA   `wire:",required=false"`
	F1   scen.I1    `wire:",required=false"`
	F2   scen.I2    `wire:",required=false"`
	F12  scen.I12   `wire:",required=false"`
	SPA  []*scen.TA `wire:",required=false"`
	S1   []scen.I1  `wire:",required=false"`
	S2   []scen.I2  `wire:",required=false"`
	SA   []any      `wire:",required=false"`
	A    any        `wire:",required=false"`
	FnP  *scen.TA   `func:"Comp,required=false"`
	Fn1  []scen.I1  `func:"Comp,required=false"`
	FnA  []scen.I2  `func:"Comp,returns=A,required=false"`
	FnAB []scen.I2  `func:"Comp,returns=A B,required=false"`
	FnS  []scen.I1  `func:"Comp,returns=*,required=false"`
	FnB  scen.I2    `func:"Comp,returns=B,required=false"`
	FnU  []scen.I1  `func:"Élan,required=false"`
}

// c6inner has the fields of c6All under an unexported type name; c6AllEmb embeds it by value
// (the points then live in an anonymous, untagged, unexported-typed embedded struct).
type c6inner c6All

type c6AllEmb struct {
	c6inner
}

// one required point per consumer type
type c6rPA struct {
	F *scen.TA `wire:""`
}
type c6rF1 struct {
	F scen.I1 `wire:""`
}
type c6rF2 struct {
	F scen.I2 `wire:""`
}
type c6rF12 struct {
	F scen.I12 `wire:""`
}
type c6rSPA struct {
	F []*scen.TA `wire:""`
}
type c6rS1 struct {
	F []scen.I1 `wire:""`
}
type c6rS2 struct {
	F []scen.I2 `wire:""`
}
type c6rFnP struct {
	F *scen.TA `func:"Comp"`
}
type c6rFn1 struct {
	F []scen.I1 `func:"Comp"`
}
type c6rFnA struct {
	F []scen.I2 `func:"Comp,returns=A"`
}
type c6rFnAB struct {
	F []scen.I2 `func:"Comp,returns=A B"`
}
type c6rFnS struct {
	F []scen.I1 `func:"Comp,returns=*"`
}
type c6rFnB struct {
	F scen.I2 `func:"Comp,returns=B"`
}

// c6Peer is a holder that is itself a provider of the types its own points accept: other
// instances of the holder's type must be injected, the holder itself never.
type c6Peer struct {
	scen.Nm
	Peers   []scen.I1 `wire:",required=false"`
	Sibs    []*c6Peer `wire:",required=false"`
	Next    *c6Peer   `wire:",required=false"`
	Partner scen.I1   `wire:",required=false"`
}

func (*c6Peer) M1() {}

// c6Neutral holds the same points as c6Peer without providing any of their types.
type c6Neutral struct {
	Nm      string
	Peers   []scen.I1 `wire:",required=false"`
	Sibs    []*c6Peer `wire:",required=false"`
	Next    *c6Peer   `wire:",required=false"`
	Partner scen.I1   `wire:",required=false"`
}

func (n *c6Neutral) Naming() string { return n.Nm }

// c6Proc is a user post-processor with an injection point of its own: the container creates it
// (and what it needs) while the processor chain is still being assembled, in Order position.
type c6Proc struct {
	processors.DefaultComponentPostProcessor
	Dep *c6Peer `wire:"p0"`
}

func (*c6Proc) Naming() string { return "zz-c6proc" }

type c6ProcOrdered struct {
	c6Proc
	o int
}

func (p *c6ProcOrdered) Order() int { return p.o }

// c6Z collects zero-size components (all of them live at one address, yet each is a component).
type c6Z struct {
	All []scen.IZ `wire:",required=false"`
	One scen.IZ   `wire:",required=false"`
	Any []any     `wire:",required=false"`
}

// c6NS collects providers whose pointee is a named non-struct type.
type c6NS struct {
	Num *scen.TNum  `wire:",required=false"`
	Map *scen.TMapT `wire:",required=false"`
	All []scen.I1   `wire:",required=false"`
	One scen.I1     `wire:",required=false"`
}

// c6Sealed collects implementers of a sealed interface.
type c6Sealed struct {
	All []scen.IS `wire:",required=false"`
	One scen.IS   `wire:",required=false"`
}

var c6Kinds = []string{"PA", "F1", "F2", "F12", "SPA", "S1", "S2", "FnP", "Fn1", "FnA", "FnAB", "FnS", "FnB"}

func c6Pred(kind string) func(t string) bool {
	imp := scen.Implements
	res := func(t string) bool { return scen.CompNoResult[t] || scen.CompResult[t] != "" }
	switch kind {
	case "PA", "SPA":
		return func(t string) bool { return t == "TA" }
	case "F1", "S1":
		return func(t string) bool { return imp["I1"][t] }
	case "F2", "S2":
		return func(t string) bool { return imp["I2"][t] }
	case "F12":
		return func(t string) bool { return imp["I12"][t] }
	case "FnP":
		return func(t string) bool { return t == "TA" && scen.CompNoResult[t] }
	case "Fn1":
		return func(t string) bool { return imp["I1"][t] && scen.CompNoResult[t] }
	case "FnA":
		return func(t string) bool { return imp["I2"][t] && scen.CompResult[t] == "A" }
	case "FnAB":
		return func(t string) bool { return imp["I2"][t] && scen.CompResult[t] != "" }
	case "FnS":
		return func(t string) bool { return imp["I1"][t] && res(t) }
	case "FnB":
		return func(t string) bool { return imp["I2"][t] && scen.CompResult[t] == "B" }
	case "FnU":
		return func(t string) bool { return imp["I1"][t] && scen.HasElan[t] }
	}
	panic(kind)
}

type c06Case struct {
	Pop       []scen.Inst `json:"population"`
	Kind      string      `json:"required_kind,omitempty"` // "": the all-optional consumer
	Desc      bool        `json:"descending_order,omitempty"`
	Mode      int         `json:"mode,omitempty"`
	Bound     int         `json:"bound,omitempty"`
	Choices   []int       `json:"choices,omitempty"`
	ProcOrder int         `json:"processor_order,omitempty"` // family "peers": a user post-processor depending on peer p0, Ordered with this Order (-1: unordered)
	Neutral   int         `json:"neutral_mask,omitempty"`    // family "peers": holders of the same points that provide nothing (bit 0: named to sort first, bit 1: last)
	Peers     []string    `json:"peer_names,omitempty"`      // family "peers": names of the c6Peer holders ("" = default name)
	Embedded  bool        `json:"points_in_unexported_embedded_struct,omitempty"`
	Preset    bool        `json:"fields_preset,omitempty"`   // the all-optional consumer is registered with every field already holding unregistered objects
	Zero      int         `json:"zero_size_mask,omitempty"`  // family "zero-size": which of Z1,Z2,Z3 are registered
	NonStruct int         `json:"non_struct_mask,omitempty"` // family "non-struct": which of *TNum (int64), *TMapT (map) are registered, bit 2: a *TA next to them
	Sealed    int         `json:"sealed_mask,omitempty"`     // family "sealed": which of TS1,TS2 (implementers of a sealed interface) are registered
}

func c06Pops(variants [][]string, yield func([]scen.Inst) bool) {
	types := scen.TypedNames
	var rec func(i int, cur []scen.Inst) bool
	rec = func(i int, cur []scen.Inst) bool {
		if i == len(types) {
			return yield(append([]scen.Inst{}, cur...))
		}
		for _, v := range variants {
			next := cur[:len(cur):len(cur)]
			for _, nmv := range v {
				name := ""
				if nmv != "" {
					name = strings.ToLower(types[i]) + nmv
				}
				next = append(next, scen.Inst{Typ: types[i], Name: name})
			}
			if !rec(i+1, next) {
				return false
			}
		}
		return true
	}
	rec(0, nil)
}

func c06Gen(c *core.Ctx) func(yield func(c06Case) bool) {
	return func(yield func(c06Case) bool) {
		full := [][]string{nil, {""}, {"n"}, {"", "n"}, {"n", "m"}}
		small := [][]string{nil, {""}, {"n"}}
		ok := true
		c06Pops(full, func(pop []scen.Inst) bool {
			for _, desc := range []bool{false, true} {
				if ok = yield(c06Case{Pop: pop, Desc: desc}); !ok {
					return false
				}
			}
			return true
		})
		if !ok {
			return
		}
		// the points live in an unexported-typed struct embedded by value
		c06Pops(small, func(pop []scen.Inst) bool {
			ok = yield(c06Case{Pop: pop, Embedded: true})
			return ok
		})
		if !ok {
			return
		}
		// the all-optional consumer registered with every field already set
		c06Pops(small, func(pop []scen.Inst) bool {
			ok = yield(c06Case{Pop: pop, Preset: true})
			return ok
		})
		if !ok {
			return
		}
		reqPops := small
		if c.Thorough() {
			reqPops = full
		}
		c06Pops(reqPops, func(pop []scen.Inst) bool {
			for _, k := range c6Kinds {
				if ok = yield(c06Case{Pop: pop, Kind: k}); !ok {
					return false
				}
			}
			return true
		})
		if !ok {
			return
		}
		// implementers of an interface with an unexported method
		for m := 1; m < 4; m++ {
			if ok = yield(c06Case{Sealed: m}); !ok {
				return
			}
		}
		// providers whose pointee is a named non-struct type
		for m := 1; m < 8; m++ {
			if m == 4 {
				continue
			}
			for _, desc := range []bool{false, true} {
				if ok = yield(c06Case{NonStruct: m, Desc: desc}); !ok {
					return
				}
			}
		}
		// zero-size components
		for z := 1; z < 8; z++ {
			for _, desc := range []bool{false, true} {
				if ok = yield(c06Case{Zero: z, Desc: desc}); !ok {
					return
				}
			}
		}
		// holders that are providers of their own points' types
		for _, peers := range [][]string{{"p0"}, {""}, {"p0", "p1"}, {"", "p1"}, {"p0", "p1", "p2"}, {"p0", "", "p2"}} {
			for _, others := range [][]scen.Inst{nil, {{Typ: "TA", Name: "tan"}}, {{Typ: "TB"}}, {{Typ: "TA"}, {Typ: "TB", Name: "tbn"}, {Typ: "TC"}}} {
				for _, desc := range []bool{false, true} {
					for neutral := 0; neutral < 4; neutral++ {
						if ok = yield(c06Case{Pop: others, Peers: peers, Desc: desc, Neutral: neutral}); !ok {
							return
						}
					}
					if peers[0] == "p0" {
						for _, po := range []int{-1, 1, 3, 5, 9} {
							if ok = yield(c06Case{Pop: others, Peers: peers, Desc: desc, ProcOrder: po}); !ok {
								return
							}
						}
					}
				}
			}
		}
		// every single non-default iteration-order answer, small populations, all-optional consumer
		bound := 1
		c06Pops(small, func(pop []scen.Inst) bool {
			if len(pop) < 2 || (!c.Thorough() && len(pop) > 3) {
				return true
			}
			ok = yield(c06Case{Pop: pop, Bound: bound})
			return ok
		})
	}
}

func c06Required(kind string) (holder any, get func() any) {
	switch kind {
	case "PA":
		h := &c6rPA{}
		return h, func() any { return h.F }
	case "F1":
		h := &c6rF1{}
		return h, func() any { return h.F }
	case "F2":
		h := &c6rF2{}
		return h, func() any { return h.F }
	case "F12":
		h := &c6rF12{}
		return h, func() any { return h.F }
	case "SPA":
		h := &c6rSPA{}
		return h, func() any { return h.F }
	case "S1":
		h := &c6rS1{}
		return h, func() any { return h.F }
	case "S2":
		h := &c6rS2{}
		return h, func() any { return h.F }
	case "FnP":
		h := &c6rFnP{}
		return h, func() any { return h.F }
	case "Fn1":
		h := &c6rFn1{}
		return h, func() any { return h.F }
	case "FnA":
		h := &c6rFnA{}
		return h, func() any { return h.F }
	case "FnAB":
		h := &c6rFnAB{}
		return h, func() any { return h.F }
	case "FnS":
		h := &c6rFnS{}
		return h, func() any { return h.F }
	case "FnB":
		h := &c6rFnB{}
		return h, func() any { return h.F }
	}
	panic(kind)
}

func isSliceKind(k string) bool {
	return strings.HasPrefix(k, "S") || (strings.HasPrefix(k, "Fn") && k != "FnP" && k != "FnB")
}

func c06Run(c *core.Ctx) {
	first := true
	Cases(c, c06Gen(c), func(c *core.Ctx, cs c06Case) {
		kinds := ""
		if cs.Bound > 0 {
			kinds = "P"
		}
		body := func(ch *envx.Chooser) {
			var comps []any
			ids := map[string]string{}
			var all []string
			user := map[string]bool{}
			for i, in := range cs.Pop {
				comps = append(comps, scen.BuildInst(in, i))
				id := fmt.Sprintf("%s#%d", in.Typ, i)
				ids[id] = in.Typ
				all = append(all, id)
				user[in.RegName()] = true
			}
			var peers []*c6Peer
			for i, pn := range cs.Peers {
				pp := &c6Peer{Nm: scen.Nm{Id: fmt.Sprintf("peer#%d", i), Name: pn}}
				peers = append(peers, pp)
				comps = append(comps, pp)
				if pn == "" {
					user["verif/props/c6Peer"] = true
				} else {
					user[pn] = true
				}
			}
			if cs.ProcOrder == -1 {
				comps = append(comps, &c6Proc{})
			} else if cs.ProcOrder != 0 {
				comps = append(comps, &c6ProcOrdered{o: cs.ProcOrder})
			}
			var neutrals []*c6Neutral
			for bit, nm := range []string{"0-neutral", "zz-neutral"} {
				if cs.Neutral>>bit&1 == 1 {
					nh := &c6Neutral{Nm: nm}
					neutrals = append(neutrals, nh)
					comps = append(comps, nh)
					user[nm] = true
				}
			}
			var zh *c6Z
			var zwant []string
			if cs.Zero != 0 {
				for i, z := range []any{&scen.Z1{}, &scen.Z2{}, &scen.Z3{}} {
					if cs.Zero>>i&1 == 1 {
						comps = append(comps, z)
						zwant = append(zwant, fmt.Sprintf("Z%d", i+1))
						user[fmt.Sprintf("verif/internal/scen/Z%d", i+1)] = true
					}
				}
				zh = &c6Z{}
				comps = append(comps, zh)
			}
			var nsh *c6NS
			var nsNum *scen.TNum
			var nsMap *scen.TMapT
			var nsWant []string
			if cs.NonStruct != 0 {
				if cs.NonStruct&1 != 0 {
					v := scen.TNum(7)
					nsNum = &v
					comps = append(comps, nsNum)
					nsWant = append(nsWant, "TNum#7")
					user["verif/internal/scen/TNum"] = true
				}
				if cs.NonStruct&2 != 0 {
					v := scen.TMapT{"id": 9}
					nsMap = &v
					comps = append(comps, nsMap)
					nsWant = append(nsWant, "TMapT#9")
					user["verif/internal/scen/TMapT"] = true
				}
				if cs.NonStruct&4 != 0 {
					comps = append(comps, scen.BuildInst(scen.Inst{Typ: "TA", Name: "tan"}, 0))
					nsWant = append(nsWant, "TA#0")
					user["tan"] = true
				}
				sort.Strings(nsWant)
				nsh = &c6NS{}
				comps = append(comps, nsh)
			}
			var sh *c6Sealed
			var swant []string
			if cs.Sealed != 0 {
				if cs.Sealed&1 != 0 {
					comps = append(comps, &scen.TS1{X: 1})
					swant = append(swant, "TS1")
				}
				if cs.Sealed&2 != 0 {
					comps = append(comps, &scen.TS2{Nm: scen.Nm{Id: "TS2"}})
					swant = append(swant, "TS2")
				}
				sh = &c6Sealed{}
				comps = append(comps, sh)
			}
			var call *c6All
			var holderObj any
			var get func() any
			if len(cs.Peers) > 0 || cs.Zero != 0 || cs.Sealed != 0 || cs.NonStruct != 0 {
			} else if cs.Kind == "" {
				call = &c6All{}
				if cs.Preset {
					dA, dB := &scen.TA{Nm: scen.Nm{Id: "decoy"}}, &scen.TB{Nm: scen.Nm{Id: "decoy"}}
					*call = c6All{PA: dA, F1: dB, F2: dB, F12: dB, SPA: []*scen.TA{dA}, S1: []scen.I1{dB}, S2: []scen.I2{dB}, SA: []any{dB}, A: dB,
						FnP: dA, Fn1: []scen.I1{dB}, FnA: []scen.I2{dB}, FnAB: []scen.I2{dB}, FnS: []scen.I1{dB}, FnB: dB, FnU: []scen.I1{dB}}
				}
				if cs.Embedded {
					emb := &c6AllEmb{}
					call = (*c6All)(&emb.c6inner)
					holderObj = emb
					comps = append(comps, emb)
					user["verif/props/c6AllEmb"] = true
				} else {
					holderObj = call
					comps = append(comps, call)
					user["verif/props/c6All"] = true
				}
			} else {
				var h any
				h, get = c06Required(cs.Kind)
				comps = append(comps, h)
			}
			var base []string
			if cs.Desc {
				for k := range user {
					base = append(base, k)
				}
				sort.Sort(sort.Reverse(sort.StringSlice(base)))
			}
			var allComps []any
			o := scen.Start(scen.StartSpec{Ch: ch, Comps: comps, User: user, Base: base, Mode: cs.Mode, After: func(o *scen.StartObs) {
				if o.Err == nil {
					allComps, _ = o.App.GetComponents()
				}
			}})
			c.S.Evaluations++
			c.S.States++
			c.S.Transitions += int64(o.Trace.Calls) + int64(len(ch.Pts))
			cc := cs
			cc.Choices = ch.Choices()
			key := func(kind string) string {
				return "C06/" + kind + "/" + core.Hash(cs.Pop, cs.Kind, cs.Desc, cs.Peers, cs.Zero, cs.Sealed, cs.Neutral, cs.ProcOrder, cs.Preset, cs.Embedded, cs.NonStruct, cc.Choices)
			}
			adm := func(kind string) []string {
				pred := c6Pred(kind)
				var out []string
				for _, id := range all {
					if pred(ids[id]) {
						out = append(out, id)
					}
				}
				sort.Strings(out)
				return out
			}
			if o.Panic != "" || o.Abort != "" {
				c.Outcome("crash")
				c.Report(key("panic"), "panic", "start-up did not return normally: "+o.Panic+o.Abort, cc)
				return
			}
			untouched := "-" // what a point without admissible provider holds afterwards
			if cs.Preset {
				untouched = "decoy"
			}
			single := func(field string, got any, want []string) bool {
				g := scen.IdOf(got)
				if len(want) == 0 {
					if g != untouched {
						c.Report(key("unsound-"+field), "unsound", fmt.Sprintf("%s received %s although no registered component is admissible", field, g), cc)
						return false
					}
					return true
				}
				for _, w := range want {
					if w == g {
						return true
					}
				}
				c.Report(key("single-"+field), "wrong-or-missing", fmt.Sprintf("%s holds %s, admissible: %v", field, g, want), cc)
				return false
			}
			slice := func(field string, got []string, want []string) bool {
				if len(want) == 0 && cs.Preset {
					want = []string{"decoy"} // left as registered
				}
				sort.Strings(got)
				if fmt.Sprint(got) != fmt.Sprint(want) {
					c.Report(key("slice-"+field), "slice-mismatch", fmt.Sprintf("%s holds %v, want every admissible component exactly once: %v", field, got, want), cc)
					return false
				}
				return true
			}
			if cs.NonStruct != 0 {
				if o.Err != nil {
					c.Outcome("nonstruct/error")
					c.Report(key("nonstruct-error"), "spurious-error", "all points are optional but start-up failed: "+scen.FirstLine(o.Err), cc)
					return
				}
				c.Outcome(fmt.Sprintf("nonstruct/ok/%d", len(nsWant)))
				switch {
				case nsh.Num != nsNum:
					c.Report(key("nonstruct-num"), "wrong-or-missing", fmt.Sprintf("*TNum point (a component whose pointee is an int64) holds %v, registered: %v", nsh.Num, nsNum != nil), cc)
				case nsh.Map != nsMap:
					c.Report(key("nonstruct-map"), "wrong-or-missing", fmt.Sprintf("*TMapT point (a component whose pointee is a map) holds %v, registered: %v", nsh.Map, nsMap != nil), cc)
				default:
					if slice("[]I1 next to non-struct providers", scen.IdsOf(nsh.All), nsWant) {
						single("I1 next to non-struct providers", nsh.One, nsWant)
					}
				}
				return
			}
			if cs.Sealed != 0 {
				if o.Err != nil {
					c.Outcome("sealed/error")
					c.Report(key("sealed-error"), "spurious-error", "all points are optional but start-up failed: "+scen.FirstLine(o.Err), cc)
					return
				}
				c.Outcome(fmt.Sprintf("sealed/ok/%d", len(swant)))
				if slice("[]IS (sealed interface)", scen.IdsOf(sh.All), swant) {
					single("IS (sealed interface)", sh.One, swant)
				}
				return
			}
			if cs.Zero != 0 {
				if o.Err != nil {
					c.Outcome("zero/error")
					c.Report(key("zero-error"), "spurious-error", "all points are optional but start-up failed: "+scen.FirstLine(o.Err), cc)
					return
				}
				c.Outcome(fmt.Sprintf("zero/ok/%d", len(zwant)))
				var got []string
				for _, z := range zh.All {
					got = append(got, z.MZ())
				}
				if !slice("[]IZ (zero-size components)", got, zwant) {
					return
				}
				var gotAny []string
				for _, x := range zh.Any {
					if z, isZ := x.(scen.IZ); isZ {
						gotAny = append(gotAny, z.MZ())
					}
				}
				if !slice("[]any (zero-size components among it)", gotAny, zwant) {
					return
				}
				if zh.One == nil {
					c.Report(key("zero-one"), "wrong-or-missing", fmt.Sprintf("single IZ point is empty although %v are admissible", zwant), cc)
				}
				return
			}
			if len(cs.Peers) > 0 {
				if o.Err != nil {
					c.Outcome("peers/error")
					c.Report(key("peers-error"), "spurious-error", "all points are optional but start-up failed: "+scen.FirstLine(o.Err), cc)
					return
				}
				c.Outcome(fmt.Sprintf("peers/ok/%d", len(peers)))
				i1 := adm("F1")
				if cs.ProcOrder > 0 && cs.ProcOrder < 5 {
					// the processor is created before the built-in wiring processors are all in place,
					// and so are the peers it needs: which candidate such an early component receives is
					// not fixed, but it is never its own holder and never anything inadmissible
					for _, h := range peers {
						adm1 := map[string]bool{}
						admP := map[string]bool{}
						for _, q := range peers {
							if q != h {
								adm1[q.Id], admP[q.Id] = true, true
							}
						}
						for _, x := range i1 {
							adm1[x] = true
						}
						sound := func(field string, got []string, adm map[string]bool) bool {
							seen := map[string]bool{}
							for _, g := range got {
								if g == "-" {
									continue
								}
								if g == h.Id {
									c.Report(key("self-"+field), "self-injection", fmt.Sprintf("%s holds its own holder (the holder is created while a user post-processor with Order %d is being created)", field, cs.ProcOrder), cc)
									return false
								}
								if !adm[g] || seen[g] {
									c.Report(key("unsound-"+field), "unsound", fmt.Sprintf("%s holds %v, admissible (each at most once): %v", field, got, adm), cc)
									return false
								}
								seen[g] = true
							}
							return true
						}
						if !(sound(h.Id+".Peers", scen.IdsOf(h.Peers), adm1) && sound(h.Id+".Sibs", scen.IdsOf(h.Sibs), admP) &&
							sound(h.Id+".Next", []string{scen.IdOf(h.Next)}, admP) && sound(h.Id+".Partner", []string{scen.IdOf(h.Partner)}, adm1)) {
							return
						}
					}
					return
				}
				for _, h := range peers {
					var otherPeers, wantI1 []string
					for _, q := range peers {
						if q != h {
							otherPeers = append(otherPeers, q.Id)
						}
					}
					wantI1 = append(append(wantI1, i1...), otherPeers...)
					sort.Strings(wantI1)
					sort.Strings(otherPeers)
					if !(slice(h.Id+".Peers", scen.IdsOf(h.Peers), wantI1) && slice(h.Id+".Sibs", scen.IdsOf(h.Sibs), otherPeers) &&
						single(h.Id+".Next", h.Next, otherPeers) && single(h.Id+".Partner", h.Partner, wantI1)) {
						return
					}
				}
				var allPeers []string
				for _, q := range peers {
					allPeers = append(allPeers, q.Id)
				}
				allI1 := append(append([]string{}, i1...), allPeers...)
				sort.Strings(allPeers)
				sort.Strings(allI1)
				for _, h := range neutrals {
					if !(slice(h.Nm+".Peers", scen.IdsOf(h.Peers), allI1) && slice(h.Nm+".Sibs", scen.IdsOf(h.Sibs), allPeers) &&
						single(h.Nm+".Next", h.Next, allPeers) && single(h.Nm+".Partner", h.Partner, allI1)) {
						return
					}
				}
				return
			}
			if cs.Kind != "" {
				want := adm(cs.Kind)
				switch {
				case len(want) == 0 && o.Err == nil:
					c.Outcome("req/" + cs.Kind + "/missing-error")
					c.Report(key("noerr"), "missing-error", fmt.Sprintf("required %s point has no admissible provider but start-up succeeded", cs.Kind), cc)
				case len(want) > 0 && o.Err != nil:
					c.Outcome("req/" + cs.Kind + "/spurious-error")
					c.Report(key("spurious"), "spurious-error", fmt.Sprintf("required %s point has admissible providers %v but start-up failed: %s", cs.Kind, want, scen.FirstLine(o.Err)), cc)
				case o.Err == nil:
					c.Outcome("req/" + cs.Kind + "/ok")
					if isSliceKind(cs.Kind) {
						slice(cs.Kind, scen.IdsOf(get()), want)
					} else {
						single(cs.Kind, get(), want)
					}
				default:
					c.Outcome("req/" + cs.Kind + "/error-as-required")
				}
				return
			}
			if o.Err != nil {
				c.Outcome("opt/error")
				c.Report(key("opt-error"), "spurious-error", "all points are optional but start-up failed: "+scen.FirstLine(o.Err), cc)
				return
			}
			c.Outcome(fmt.Sprintf("opt/ok/providers=%d", len(all)))
			h := call
			okAll := single("PA", h.PA, adm("PA")) && single("F1", h.F1, adm("F1")) && single("F2", h.F2, adm("F2")) &&
				single("F12", h.F12, adm("F12")) && slice("SPA", scen.IdsOf(h.SPA), adm("SPA")) && slice("S1", scen.IdsOf(h.S1), adm("S1")) &&
				slice("S2", scen.IdsOf(h.S2), adm("S2")) && single("FnP", h.FnP, adm("FnP")) && slice("Fn1", scen.IdsOf(h.Fn1), adm("Fn1")) &&
				slice("FnA", scen.IdsOf(h.FnA), adm("FnA")) && slice("FnAB", scen.IdsOf(h.FnAB), adm("FnAB")) && slice("FnS", scen.IdsOf(h.FnS), adm("FnS")) &&
				single("FnB", h.FnB, adm("FnB")) && slice("FnU", scen.IdsOf(h.FnU), adm("FnU"))
			if !okAll {
				return
			}
			// any / []any: every registered component except the holder, each exactly once
			want := map[any]int{}
			for _, x := range allComps {
				if x != holderObj {
					want[x]++
				}
			}
			got := map[any]int{}
			for _, x := range h.SA {
				got[x]++
			}
			if len(allComps) == 0 {
				c.Report(key("any-lookup"), "lookup-failed", "GetComponents() returned nothing after a successful start", cc)
				return
			}
			for x, n := range want {
				if got[x] != n {
					c.Report(key("anyslice"), "slice-mismatch", fmt.Sprintf("[]any point holds %T %d times, want %d", x, got[x], n), cc)
					return
				}
			}
			for x, n := range got {
				if want[x] != n {
					c.Report(key("anyslice2"), "slice-mismatch", fmt.Sprintf("[]any point holds %T %d times, want %d (holder itself or unregistered object)", x, n, want[x]), cc)
					return
				}
			}
			if h.A == nil {
				c.Report(key("any-empty"), "wrong-or-missing", fmt.Sprintf("single `any` point is empty although %d registered components besides the holder are admissible", len(want)), cc)
			} else if h.A == holderObj || want[h.A] == 0 {
				c.Report(key("any-wrong"), "unsound", fmt.Sprintf("single `any` point holds %T which is the holder or not registered", h.A), cc)
			}
		}
		if c.ReplayCase != nil {
			body(envx.Fixed(kinds, cs.Choices))
			return
		}
		if first {
			first = false
			c.S.DeterminismOK = true
		}
		c.S.Programs++
		nt := false
		for _, k := range c6Kinds {
			n := 0
			pred := c6Pred(k)
			for _, in := range cs.Pop {
				if pred(in.Typ) {
					n++
				}
			}
			nt = nt || n != 1
		}
		if nt {
			c.S.Nontrivial++
		}
		st := envx.Explore(envx.Options{Kinds: kinds, Bound: cs.Bound, Stop: c.Expired}, body)
		if st.Truncated {
			c.Cap("exploration of a program truncated by the budget")
		}
		if c.S.Programs%1500 == 1 {
			c.Sample(map[string]any{"case": cs, "executions": st.Execs})
		}
	})
}
