package props

import (
	"errors"
	"fmt"
	cd "github.com/go-kid/ioc/component_definition"
	"github.com/go-kid/ioc/container/processors"

	"github.com/go-kid/ioc/app"
	"github.com/go-kid/ioc/configure"
	"github.com/go-kid/ioc/container"
	"github.com/go-kid/ioc/container/factory"
	"github.com/go-kid/ioc/container/support"
	"github.com/go-kid/ioc/definition"
	"github.com/go-kid/ioc/syslog"
	"github.com/go-kid/ioc/util/vsync"

	"verif/internal/core"
	"verif/internal/scen"
)

func init() {
	register(&Driver{
		ID:        "C14",
		Technique: "stateless model checking of the real App.Close under a controlled cooperative scheduler (typed source instrumentation of sync and go statements): all goroutine interleavings for <=2 closers, iterative preemption bounding above; per-schedule oracle on call counters / finished flags at the instant Close returns, deadlock detection, and the race detector (hand-offs invisible to tsan) as an additional per-schedule oracle",
		Rule:      "configurations = n in {0..3} closers x every subset returning an error x body length {0,1,2} scheduling points x {no slow closer, closer i blocks until every other closer has been invoked}; n in {4,5,6} x {none, all, alternating} failing; driver = (&app.App{CloserComponents: ...}).Close() and the closers wired by one real start; all interleavings for n<=2, preemption bound 2 (thorough 3) for n=3, 1 for n>=4; non-trivial = n >= 2. Families added in later rounds (look-ups inside Init, retries after an abandoned attempt, user extension points at every Order, several containers, odd names / types / values) are listed per part in this file and described in MANIFEST.json (level_claimed.text) and DESIGN §7",
		Assumptions: []string{
			"scheduling points are the synchronisation operations of the repository code (WaitGroup, Mutex, sync.Map, go statements) plus the closers' own yield points; plain memory accesses between them are covered by the race detector, not by interleaving",
			"weak-memory behaviours below tsan's happens-before model are not covered",
		},
		Parts: []Part{{Name: "close", Race: true, Verbose: true, Run: c14Run, QuickS: 240, ThoroughS: 1500}},
	})
}

type c14Closer struct {
	idx      int
	calls    int
	done     int // invocations that have returned
	finished bool
	fail     bool
	steps    int
	slow     bool
	all      []*c14Closer
}

//go:norace
func (c *c14Closer) Close() error {
	c.calls++
	for i := 0; i < c.steps; i++ {
		vsync.Point()
	}
	if c.slow {
		vsync.WaitUntil(c.othersInvoked)
	}
	c.finished = true
	c.done++
	if c.fail {
		return errClose
	}
	return nil
}

var errClose = errors.New("close failed")

//go:norace
func (c *c14Closer) othersInvoked() bool {
	for _, o := range c.all {
		if o != c && o.calls == 0 {
			return false
		}
	}
	return true
}

//go:norace
func c14Reset(cs []*c14Closer) {
	for _, c := range cs {
		c.calls, c.finished, c.done = 0, false, 0
	}
}

// c14Snapshot records what is true at the instant Close returned.
//
//go:norace
func c14Snapshot(cs []*c14Closer) (calls []int, finished []bool) {
	for _, c := range cs {
		calls = append(calls, c.calls)
		finished = append(finished, c.finished && c.done == c.calls) // every invocation so far has returned
	}
	return
}

type c14Case struct {
	N       int  `json:"closers"`
	Fail    int  `json:"failing_mask"`
	Steps   int  `json:"body_steps"`
	Slow    int  `json:"slow_closer"` // -1 none
	Wired   bool `json:"wired_by_real_start,omitempty"`
	Both    bool `json:"closers_are_runners_too,omitempty"`             // wired closers also implement ApplicationRunner
	AppDep  int  `json:"closers_depend_on_app,omitempty"`               // wired closers hold the App itself: 1 directly, 2 through another component
	Late    bool `json:"named_after_the_app,omitempty"`                 // their names sort after the App's own component name (created after it)
	OrdMask int  `json:"closers_with_an_order,omitempty"`               // bit i: closer i also implements Order() (Order = its index; a slow ordered closer must not hold the others back either)
	Second  int  `json:"second_close,omitempty"`                        // 1: App.Close is called again after it returned, 2: a second App.Close overlaps the first
	Claim   bool `json:"user_scanner_claims_the_apps_fields,omitempty"` // a user tag scanner declares the App's closer / runner slices as wire points too
	Zero    int  `json:"zero_size_closers,omitempty"`                   // mask: stateless closers of field-less types (one shared address)
	// StartFails (wired): the start that wires the closers fails - 1: a runner returns an error (every
	// closer was registered with the App before); 2: a component created after the App and the closers
	// fails in its Init. Close after such a start still reaches every closer the App was given.
	StartFails int `json:"start_fails,omitempty"`
	// Infra (wired, one closer): the closer is at the same time the App's own Configure (1), Factory (2)
	// or singleton registry (3), installed with the matching option and registered as a component
	Infra int `json:"closer_is_app_infrastructure,omitempty"`
	// Ring (wired, two closers): each closer holds the other one (a dependency cycle among closers)
	Ring   bool  `json:"closers_hold_each_other,omitempty"`
	Bound  int   `json:"preemption_bound"`
	Script []int `json:"schedule,omitempty"`
}

func c14Gen(c *core.Ctx) func(yield func(c14Case) bool) {
	return func(yield func(c14Case) bool) {
		for n := 0; n <= 3; n++ {
			bound := 99
			if n == 3 {
				bound = 2
				if c.Thorough() {
					bound = 3
				}
			}
			maxSteps := 1
			if c.Thorough() || n <= 2 {
				maxSteps = 2
			}
			for fail := 0; fail < 1<<n; fail++ {
				for steps := 0; steps <= maxSteps; steps++ {
					slows := []int{-1}
					for i := 0; i < n && n >= 2; i++ {
						if c.Thorough() || i == 0 || steps == 0 {
							slows = append(slows, i)
						}
					}
					for _, slow := range slows {
						if !yield(c14Case{N: n, Fail: fail, Steps: steps, Slow: slow, Bound: bound}) {
							return
						}
					}
				}
			}
			if n >= 1 && !yield(c14Case{N: n, Fail: 1, Steps: 1, Slow: -1, Wired: true, Bound: bound}) {
				return
			}
			if n >= 1 && !yield(c14Case{N: n, Fail: 0, Steps: 0, Slow: -1, Wired: true, Both: true, Bound: bound}) {
				return
			}
			// two closers on a dependency cycle
			if n == 2 {
				for fail := 0; fail < 4; fail++ {
					if !yield(c14Case{N: 2, Fail: fail, Steps: 0, Slow: -1, Wired: true, Ring: true, Bound: bound}) {
						return
					}
				}
			}
			// a closer that is also a piece of the App's own infrastructure
			for infra := 1; infra <= 3 && n == 1; infra++ {
				for _, fail := range []int{0, 1} {
					if !yield(c14Case{N: 1, Fail: fail, Steps: 0, Slow: -1, Wired: true, Infra: infra, Bound: bound}) {
						return
					}
				}
			}
			// Close after a start that failed
			for sf := 1; sf <= 2 && n >= 1 && n <= 2; sf++ {
				for _, both := range []bool{false, true} {
					if !yield(c14Case{N: n, Fail: 0, Steps: 0, Slow: -1, Wired: true, Both: both, StartFails: sf, Bound: bound}) {
						return
					}
				}
			}
			// a user tag scanner that (also) declares the App's own collection fields as injection points
			if n >= 1 {
				for _, both := range []bool{false, true} {
					if !yield(c14Case{N: n, Fail: 0, Steps: 0, Slow: -1, Wired: true, Both: both, Claim: true, Bound: bound}) {
						return
					}
				}
			}
			// closers that depend on the App itself (they sit on a cycle with the App's own slice of
			// closers), created before or after it
			for dep := 1; dep <= 2 && n >= 1 && n <= 2; dep++ {
				for _, late := range []bool{false, true} {
					for _, both := range []bool{false, true} {
						if !yield(c14Case{N: n, Fail: 0, Steps: 0, Slow: -1, Wired: true, Both: both, AppDep: dep, Late: late, Bound: bound}) {
							return
						}
					}
				}
			}
		}
		// closers that implement Order() (all of them, or only some): a failing or slow one still never
		// keeps another closer from being invoked
		for n := 1; n <= 3; n++ {
			for _, om := range []int{1<<n - 1, 1, 1 << (n - 1)} {
				for fail := 0; fail < 1<<n; fail++ {
					for _, slow := range []int{-1, 0} {
						if slow == 0 && n < 2 {
							continue
						}
						b := 99
						if n == 3 {
							b = 1
						}
						if !yield(c14Case{N: n, Fail: fail, Steps: 0, Slow: slow, OrdMask: om, Bound: b}) {
							return
						}
					}
				}
			}
		}
		// App.Close called twice (one after the other; overlapping): each call reaches every closer
		// once and waits for the calls it made
		for n := 1; n <= 2; n++ {
			for second := 1; second <= 2; second++ {
				for fail := 0; fail < 1<<n; fail++ {
					if !yield(c14Case{N: n, Fail: fail, Steps: 0, Slow: -1, Second: second, Bound: 3 - second}) {
						return
					}
				}
			}
		}
		for z := 3; z < 8; z++ { // two or three stateless closers next to 0-1 ordinary ones
			if z == 4 {
				continue
			}
			for n := 0; n <= 1; n++ {
				if !yield(c14Case{N: n, Fail: 0, Steps: 0, Slow: -1, Bound: 2, Zero: z}) {
					return
				}
			}
		}
		for n := 4; n <= 6; n++ {
			for _, fail := range []int{0, 1<<n - 1, 0x2a & (1<<n - 1)} {
				for _, slow := range []int{-1, n - 1} {
					b := 1
					if c.Thorough() && n == 4 {
						b = 2
					}
					if !yield(c14Case{N: n, Fail: fail, Steps: 0, Slow: slow, Bound: b}) {
						return
					}
				}
			}
		}
	}
}

func c14Run(c *core.Ctx) {
	if !vsync.RaceBuild {
		panic("C14 must run in the -race build")
	}
	Cases(c, c14Gen(c), func(c *core.Ctx, cs c14Case) {
		var closers []*c14Closer
		var comps []definition.CloserComponent
		for i := 0; i < cs.N; i++ {
			k := &c14Closer{idx: i, fail: cs.Fail>>i&1 == 1, steps: cs.Steps, slow: i == cs.Slow}
			closers = append(closers, k)
			if cs.OrdMask>>i&1 == 1 {
				comps = append(comps, &c14Ordered{k})
			} else {
				comps = append(comps, k)
			}
		}
		for _, k := range closers {
			k.all = closers
		}
		zwant := 0
		for i, z := range []definition.CloserComponent{&scen.Z1{}, &scen.Z2{}, &scen.Z3{}} {
			if cs.Zero>>i&1 == 1 {
				comps = append(comps, z)
				zwant++
			}
		}
		a := &app.App{CloserComponents: comps}
		if cs.Wired {
			// the closers are found and wired by a real (free-running) start
			var anys []any
			for _, k := range closers {
				nm := c14Named{c14Closer: k, name: fmt.Sprintf("closer%d", k.idx)}
				if cs.Late {
					nm.name = "z" + nm.name
				}
				switch {
				case cs.AppDep == 1 && cs.Both:
					anys = append(anys, &c14AppRunCloser{c14AppCloser{c14Named: nm}})
				case cs.AppDep == 1:
					anys = append(anys, &c14AppCloser{c14Named: nm})
				case cs.AppDep == 2 && cs.Both:
					anys = append(anys, &c14ViaRunCloser{c14ViaCloser{c14Named: nm}})
				case cs.AppDep == 2:
					anys = append(anys, &c14ViaCloser{c14Named: nm})
				case cs.Both:
					anys = append(anys, &c14RunCloser{nm})
				default:
					anys = append(anys, &nm)
				}
			}
			if cs.AppDep == 2 {
				anys = append(anys, &c14Helper{})
			}
			if cs.Claim {
				sc := &c14ClaimScanner{}
				sc.NodeType = cd.PropertyTypeComponent
				sc.ExtractHandler = func(m *cd.Meta, f *cd.Field) (string, string, bool) {
					if _, isApp := m.Raw.(*app.App); isApp && (f.StructField.Name == "CloserComponents" || f.StructField.Name == "ApplicationRunners") {
						return "wire", ",required=false", true
					}
					return "", "", false
				}
				anys = append(anys, sc)
			}
			if cs.Ring {
				anys = []any{&c14RingA{c14Named: c14Named{c14Closer: closers[0], name: "closer0"}}, &c14RingB{c14Named: c14Named{c14Closer: closers[1], name: "closer1"}}}
			}
			var infraOpts []app.SettingOption
			switch cs.Infra {
			case 1:
				x := &c14Cfg{Configure: configure.Default(), c14Closer: closers[0]}
				anys, infraOpts = []any{x}, []app.SettingOption{app.SetConfigure(x), app.SetConfigLoader()}
			case 2:
				x := &c14Fac{Factory: factory.Default(), c14Closer: closers[0]}
				anys, infraOpts = []any{x}, []app.SettingOption{app.SetFactory(x)}
			case 3:
				x := &c14Reg{SingletonRegistry: support.NewRegistry(), c14Closer: closers[0]}
				anys, infraOpts = []any{x}, []app.SettingOption{app.SetRegistry(x)}
			}
			switch cs.StartFails {
			case 1:
				anys = append(anys, &c14FailRunner{})
			case 2:
				anys = append(anys, &c14FailInit{})
			}
			a = app.NewApp()
			if cs.StartFails != 0 {
				err := a.Run(app.SetComponents(anys...))
				if err == nil {
					c.Report("C14/wiring/"+core.Hash(cs), "start-did-not-fail", "a start with a failing runner / failing component returned nil", cs)
					return
				}
				if cs.StartFails == 1 && len(a.CloserComponents) != cs.N {
					c.Report("C14/wiring/"+core.Hash(cs), "not-exactly-once", fmt.Sprintf("a runner failed after every component was created, but App.Close knows %d closers for %d registered ones", len(a.CloserComponents), cs.N), cs)
					return
				}
				// what the App was given before the failure is what Close has to reach
				var given []*c14Closer
				for _, k := range closers {
					for _, cc := range a.CloserComponents {
						if c14Of(cc) == k {
							given = append(given, k)
							break
						}
					}
				}
				if len(given) != len(a.CloserComponents) {
					c.Report("C14/wiring/"+core.Hash(cs), "not-exactly-once", fmt.Sprintf("after a failed start the App lists %d closers of which %d are distinct registered ones", len(a.CloserComponents), len(given)), cs)
					return
				}
				closers = given
			} else if err := a.Run(append(infraOpts, app.SetComponents(anys...))...); err != nil || len(a.CloserComponents) != cs.N {
				c.Report("C14/wiring/"+core.Hash(cs), "not-exactly-once", fmt.Sprintf("after a real start App.Close knows %d closers for %d registered ones (closers are runners too: %v, err=%v): a closer is missing (it can never be closed) or listed twice", len(a.CloserComponents), cs.N, cs.Both, err), cs)
				return
			}
		}
		var calls []int
		var finished []bool
		var zlog []string
		var closePanic string
		body := func() {
			closePanic = ""
			syslog.ResetForVerif(syslog.LvTrace) // every execution starts with cold logger state
			c14Reset(closers)
			c14ZReset()
			switch cs.Second {
			case 1:
				a.Close()
				a.Close()
			case 2:
				var both vsync.WaitGroup
				both.Add(1)
				vsync.Go(func() {
					defer both.Done()
					a.Close()
				})
				a.Close()
				both.Wait()
			default:
				closePanic = scen.Protect(func() { a.Close() })
			}
			calls, finished = c14Snapshot(closers)
			zlog = c14ZSnapshot()
		}
		oracle := func(e *scen.SchedExec) {
			c.S.Evaluations++
			c.S.States++
			cc := cs
			cc.Script = e.Script
			key := func(kind string) string {
				return "C14/" + kind + "/" + core.Hash(cs.N, cs.Fail, cs.Steps, cs.Slow, cs.Wired, cs.AppDep, cs.Late, cs.Claim, cs.Second, cs.OrdMask, cs.StartFails, cs.Infra, cs.Ring)
			}
			switch {
			case e.Deadlock:
				c.Outcome("deadlock")
				c.Report(key("deadlock"), "deadlock", fmt.Sprintf("%d closers (failing mask %b, slow closer %d): Close deadlocks under schedule %v - a closer that waits for the others to be invoked is never joined by them", cs.N, cs.Fail, cs.Slow, e.Script), cc)
				return
			case len(e.ChildPanics) > 0:
				c.Outcome("panic")
				c.Report(key("panic"), "panic", fmt.Sprintf("panic in a closing goroutine: %v", e.ChildPanics), cc)
				return
			case closePanic != "":
				c.Outcome("panic")
				c.Report(key("panic"), "panic", fmt.Sprintf("%d closers (wired by a real start: %v): App.Close panicked instead of closing them: %s", cs.N, cs.Wired, scen.FirstLine(fmt.Errorf("%s", closePanic))), cc)
				return
			}
			wantCalls := 1
			if cs.Second != 0 {
				wantCalls = 2
			}
			for i := range calls {
				if calls[i] != wantCalls {
					c.Outcome("not-once")
					c.Report(key("count"), "not-exactly-once", fmt.Sprintf("%d closers (failing mask %b, slow %d), schedule %v: closer %d was invoked %d times when Close returned (App.Close calls: %d)", cs.N, cs.Fail, cs.Slow, e.Script, i, calls[i], wantCalls), cc)
					return
				}
				if !finished[i] {
					c.Outcome("returned-early")
					c.Report(key("early"), "returned-early", fmt.Sprintf("%d closers (failing mask %b, slow %d), schedule %v: Close returned before closer %d had finished", cs.N, cs.Fail, cs.Slow, e.Script, i), cc)
					return
				}
			}
			if cs.Zero != 0 {
				for i := 0; i < 3; i++ {
					cnt := 0
					for _, e := range zlog {
						if e == fmt.Sprintf("close:Z%d", i+1) {
							cnt++
						}
					}
					want := cs.Zero >> i & 1
					if cnt != want {
						c.Outcome("not-once")
						c.Report(key("zero"), "not-exactly-once", fmt.Sprintf("stateless closer Z%d (field-less type; mask %b of such closers registered): invoked %d times when Close returned, want %d; log %v", i+1, cs.Zero, cnt, want, zlog), cc)
						return
					}
				}
			}
			if e.Raced {
				c.Outcome("data-race")
				c.Report(key("race"), "data-race", fmt.Sprintf("%d closers (failing mask %b): the race detector reported during schedule %v:\n%s", cs.N, cs.Fail, e.Script, scen.RaceLogTail(1500)), cc)
				return
			}
			c.Outcome(fmt.Sprintf("n=%d/all-finished-once", cs.N))
		}
		if c.ReplayCase != nil {
			oracle(scen.ReplaySched(cs.Script, body))
			return
		}
		c.S.Programs++
		if cs.N >= 2 {
			c.S.Nontrivial++
		}
		st := scen.ExploreSched(cs.Bound, 0, c.Expired, body, oracle)
		c.S.Transitions += st.Points
		if st.Truncated {
			c.Cap(fmt.Sprintf("schedule exploration of %+v truncated by the budget after %d schedules", cs, st.Execs))
		}
		c.Sample(map[string]any{"config": cs, "schedules": st.Execs, "scheduling_points": st.Points, "all_interleavings": cs.Bound >= 99, "max_choice_points_in_one_schedule": st.MaxPoints})
	})
}

// two closers that hold each other
type c14RingA struct {
	c14Named
	Next definition.CloserComponent `wire:"closer1"`
}
type c14RingB struct {
	c14Named
	Next definition.CloserComponent `wire:"closer0"`
}

// closers that are the App's own infrastructure at the same time
type c14Cfg struct {
	configure.Configure
	*c14Closer
}

func (*c14Cfg) Naming() string { return "infra-configure" }

type c14Fac struct {
	container.Factory
	*c14Closer
}

func (*c14Fac) Naming() string { return "infra-factory" }

type c14Reg struct {
	container.SingletonRegistry
	*c14Closer
}

func (*c14Reg) Naming() string { return "infra-registry" }

type c14FailRunner struct{}

func (*c14FailRunner) Naming() string { return "zzz-failing-runner" }
func (*c14FailRunner) Run() error     { return errors.New("runner fails") }

type c14FailInit struct{}

func (*c14FailInit) Naming() string { return "zzz-failing-init" }
func (*c14FailInit) Init() error    { return errors.New("init fails") }

// c14Of: the counter behind a wired closer component.
func c14Of(cc definition.CloserComponent) *c14Closer {
	switch x := cc.(type) {
	case *c14Closer:
		return x
	case *c14Named:
		return x.c14Closer
	case *c14RunCloser:
		return x.c14Closer
	case *c14AppCloser:
		return x.c14Closer
	case *c14AppRunCloser:
		return x.c14Closer
	case *c14ViaCloser:
		return x.c14Closer
	case *c14ViaRunCloser:
		return x.c14Closer
	case *c14Ordered:
		return x.c14Closer
	case *c14RingA:
		return x.c14Closer
	case *c14RingB:
		return x.c14Closer
	case *c14Cfg:
		return x.c14Closer
	case *c14Fac:
		return x.c14Closer
	case *c14Reg:
		return x.c14Closer
	}
	return nil
}

// c14Named gives a closer a component name for the real start.
type c14Named struct {
	*c14Closer
	name string
}

func (n *c14Named) Naming() string { return n.name }

//go:norace
func c14ZReset() { scen.ZLog = nil }

//go:norace
func c14ZSnapshot() []string { return append([]string{}, scen.ZLog...) }

// c14Ordered is a closer that implements Order() as well.
type c14Ordered struct{ *c14Closer }

func (o *c14Ordered) Order() int { return o.idx }

// c14ClaimScanner is a user tag scanner (the stock one with an ExtractHandler).
type c14ClaimScanner struct {
	processors.DefaultTagScanDefinitionRegistryPostProcessor
}

func (*c14ClaimScanner) Naming() string { return "zz-c14scanner" }

// closers that hold the App itself, directly or through a helper component
type c14AppCloser struct {
	c14Named
	A *app.App `wire:""`
}
type c14AppRunCloser struct{ c14AppCloser }

func (r *c14AppRunCloser) Run() error { return nil }

type c14Helper struct {
	A *app.App `wire:""`
}

func (*c14Helper) Naming() string { return "mhelper" }

type c14ViaCloser struct {
	c14Named
	H *c14Helper `wire:""`
}
type c14ViaRunCloser struct{ c14ViaCloser }

func (r *c14ViaRunCloser) Run() error { return nil }

// c14RunCloser is a closer that is an application runner as well (a server that is started and stopped).
type c14RunCloser struct{ c14Named }

func (r *c14RunCloser) Run() error { return nil }
