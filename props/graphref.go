package props

import (
	"fmt"
	"sort"
	"strings"

	"verif/internal/scen"
)

// graphRef is the reference model of a graph program without substitution: which nodes get
// created, whether start-up must fail, and what every point must hold.
type graphRef struct {
	created   []bool
	mustError bool
	why       string
}

func single(kind int) bool {
	return kind == scen.EName || kind == scen.ENameOpt || kind == scen.EPtr || kind == scen.ETypeQ || kind == scen.EBoth
}

// refGraph computes the reference outcome from the property statement (C02/C06/C09):
// a point whose candidate set minus its holder is empty fails start-up when required and stays
// empty when optional; otherwise start-up succeeds and every point holds its target(s).
func refGraph(p *scen.GraphProg) graphRef {
	r := graphRef{created: make([]bool, p.N)}
	var stack []int
	for i := 0; i < p.N; i++ {
		if !(len(p.Lazy) > i && p.Lazy[i]) {
			r.created[i] = true
			stack = append(stack, i)
		}
	}
	for len(stack) > 0 {
		i := stack[len(stack)-1]
		stack = stack[:len(stack)-1]
		for j := 0; j < p.N; j++ {
			if p.Edges[i][j] != scen.ENone && j != i && !r.created[j] {
				r.created[j] = true
				stack = append(stack, j)
			}
		}
		for _, l := range p.InitLookup { // a programmatic look-up inside Init creates its target too
			if l[0] == i && !r.created[l[1]] {
				r.created[l[1]] = true
				stack = append(stack, l[1])
			}
		}
	}
	for i := 0; i < p.N; i++ {
		if !r.created[i] {
			continue
		}
		others := map[int]int{} // slice kind -> members other than the holder
		has := map[int]bool{}
		for j := 0; j < p.N; j++ {
			k := p.Edges[i][j]
			switch {
			case k == scen.EName || k == scen.EPtr || k == scen.ETypeQ || k == scen.EBoth:
				if j == i {
					r.mustError = true
					r.why = fmt.Sprintf("required point of %s can only be satisfied by its holder", scen.Name(i, p.N))
				}
			case k == scen.ESlice || k == scen.ESlicePtr:
				has[k] = true
				if j != i {
					others[k]++
				}
			}
		}
		for _, x := range p.Extra {
			if x.Node == i && strings.HasSuffix(x.Kind, "-req") {
				r.mustError = true
				r.why = fmt.Sprintf("required point / configuration value (%s) of %s cannot be satisfied", x.Kind, scen.Name(i, p.N))
			}
		}
		for k := range has {
			if others[k] == 0 && !p.SliceOpt {
				r.mustError = true
				r.why = fmt.Sprintf("required slice of %s has no candidate besides its holder", scen.Name(i, p.N))
			}
		}
	}
	return r
}

// checkWiring compares the wiring of a successful start with the reference (no substitution):
// returns human-readable discrepancies. fin(t) is the by-name lookup result.
func checkWiring(o *scen.GraphObs, r graphRef, identity bool) []string {
	p := o.Prog
	var bad []string
	_, slots := p.Tags()
	for i := 0; i < p.N; i++ {
		if !r.created[i] {
			continue
		}
		n := o.Nodes[i]
		nm := scen.Name(i, p.N)
		var wantL, wantLP []string
		for j := 0; j < p.N; j++ {
			k := p.Edges[i][j]
			tn := scen.Name(j, p.N)
			if k == scen.EBoth && j != i {
				wantL = append(wantL, tn)
			}
			if single(k) {
				v := n.Slot(slots[i][j])
				if j == i {
					// only reachable for the optional kind: must stay empty, never wired to itself
					if !scen.IsNilSlot(v) {
						bad = append(bad, fmt.Sprintf("%s.%s is wired to its own holder", nm, slots[i][j]))
					}
					continue
				}
				if scen.IsNilSlot(v) {
					bad = append(bad, fmt.Sprintf("%s.%s is empty, want %s", nm, slots[i][j], tn))
					continue
				}
				if b := scen.NodeOf(v); b == nil || b.Nm != tn {
					bad = append(bad, fmt.Sprintf("%s.%s holds %v, want %s", nm, slots[i][j], describe(v), tn))
					continue
				}
				if identity && o.Fin != nil && o.Fin[j] != nil && !sameObject(v, o.Fin[j]) {
					bad = append(bad, fmt.Sprintf("%s.%s holds another object than the by-name lookup of %s", nm, slots[i][j], tn))
				}
			} else if k == scen.ESlice && j != i {
				wantL = append(wantL, tn)
			} else if k == scen.ESlicePtr && j != i {
				wantLP = append(wantLP, tn)
			}
		}
		var gotL, gotLP []string
		for _, e := range n.L0 {
			b := scen.NodeOf(e)
			if b == nil {
				gotL = append(gotL, "?")
				continue
			}
			gotL = append(gotL, b.Nm)
			if identity && o.Fin != nil && o.Fin[b.Idx] != nil && !sameObject(e, o.Fin[b.Idx]) {
				bad = append(bad, fmt.Sprintf("%s.L0 holds another object than the by-name lookup of %s", nm, b.Nm))
			}
		}
		for _, e := range n.LP {
			if e == nil {
				gotLP = append(gotLP, "?")
				continue
			}
			gotLP = append(gotLP, e.Nm)
			if identity && o.Fin != nil && o.Fin[e.Idx] != nil && !sameObject(e, o.Fin[e.Idx]) {
				bad = append(bad, fmt.Sprintf("%s.LP holds another object than the by-name lookup of %s", nm, e.Nm))
			}
		}
		sort.Strings(gotL)
		sort.Strings(gotLP)
		if strings.Join(gotL, ",") != strings.Join(wantL, ",") {
			bad = append(bad, fmt.Sprintf("%s.L0 = [%s], want [%s]", nm, strings.Join(gotL, ","), strings.Join(wantL, ",")))
		}
		if strings.Join(gotLP, ",") != strings.Join(wantLP, ",") {
			bad = append(bad, fmt.Sprintf("%s.LP = [%s], want [%s]", nm, strings.Join(gotLP, ","), strings.Join(wantLP, ",")))
		}
	}
	return bad
}

// shortcutView returns the program as the reference sees it: a node whose creation a processor
// short-cuts from before-instantiation is published unpopulated, i.e. it has no injection points.
func shortcutView(p *scen.GraphProg) (*scen.GraphProg, []bool) {
	sc := make([]bool, p.N)
	q := *p
	q.Edges = make([][]int, p.N)
	for i := range q.Edges {
		q.Edges[i] = append([]int{}, p.Edges[i]...)
		if len(p.Wrap) > i && (p.Wrap[i] == scen.WrapInstSelf || p.Wrap[i] == scen.WrapInst) {
			sc[i] = true
			for j := range q.Edges[i] {
				q.Edges[i][j] = scen.ENone
			}
		}
	}
	return &q, sc
}

func describe(v any) string {
	if b := scen.NodeOf(v); b != nil {
		return fmt.Sprintf("%T(%s)", v, b.Nm)
	}
	return fmt.Sprintf("%T", v)
}

// sameObject: pointer identity of two component values.
func sameObject(a, b any) bool {
	if fa, ok := a.(scen.WF); ok { // func values cannot be compared: a closure is known by what it captured
		fb, ok := b.(scen.WF)
		return ok && fa.Serial() == fb.Serial()
	}
	defer func() { recover() }()
	return a == b
}

// graphSig is a compact outcome signature (for the distinct-outcome count).
func graphSig(o *scen.GraphObs) string {
	switch {
	case o.Panic != "":
		return "panic"
	case o.Abort != "":
		return "abort"
	case o.Err != nil:
		s := scen.FirstLine(o.Err)
		if i := strings.LastIndex(s, ": "); i >= 0 && len(s)-i < 80 {
			s = s[i+2:]
		}
		for _, w := range []string{"self inject", "not found available", "has been wrapped", "injected fault", "required"} {
			if strings.Contains(o.Err.Error(), w) {
				return "err:" + w
			}
		}
		if len(s) > 40 {
			s = s[:40]
		}
		return "err:" + s
	}
	return fmt.Sprintf("ok:events=%d", len(o.RT.Log))
}

// nontrivialGraph: a cycle, a self loop or a fan-in >= 2.
func nontrivialGraph(p *scen.GraphProg) bool {
	for j := 0; j < p.N; j++ {
		in := 0
		for i := 0; i < p.N; i++ {
			if p.Edges[i][j] != scen.ENone {
				in++
				if i == j {
					return true
				}
			}
		}
		if in >= 2 {
			return true
		}
	}
	return hasCycle(p)
}

func hasCycle(p *scen.GraphProg) bool {
	color := make([]int, p.N)
	var dfs func(int) bool
	dfs = func(i int) bool {
		color[i] = 1
		for j := 0; j < p.N; j++ {
			if p.Edges[i][j] == scen.ENone {
				continue
			}
			if color[j] == 1 || (color[j] == 0 && dfs(j)) {
				return true
			}
		}
		color[i] = 2
		return false
	}
	for i := 0; i < p.N; i++ {
		if color[i] == 0 && dfs(i) {
			return true
		}
	}
	return false
}

// allGraphs enumerates every labelled digraph over n nodes whose edges take kinds from alphabet
// (alphabet[0] must be ENone); self loops optional.
func allGraphs(n int, alphabet []int, selfLoops bool, yield func(edges [][]int) bool) {
	var cells [][2]int
	for i := 0; i < n; i++ {
		for j := 0; j < n; j++ {
			if i != j || selfLoops {
				cells = append(cells, [2]int{i, j})
			}
		}
	}
	idx := make([]int, len(cells))
	for {
		e := make([][]int, n)
		for i := range e {
			e[i] = make([]int, n)
		}
		for c, ij := range cells {
			e[ij[0]][ij[1]] = alphabet[idx[c]]
		}
		if !yield(e) {
			return
		}
		c := 0
		for c < len(cells) {
			idx[c]++
			if idx[c] < len(alphabet) {
				break
			}
			idx[c] = 0
			c++
		}
		if c == len(cells) {
			return
		}
	}
}
