package props

import (
	"fmt"
	"math"
	"strings"

	"github.com/go-kid/ioc/app"
	"github.com/go-kid/ioc/configure"
	"github.com/go-kid/ioc/configure/binder"
	"github.com/go-kid/ioc/container"
	"github.com/go-kid/ioc/container/processors"
	"github.com/go-kid/ioc/definition"
	"github.com/go-kid/ioc/util/framework_helper"

	"verif/internal/core"
	"verif/internal/envx"
	"verif/internal/scen"
)

func init() {
	register(&Driver{
		ID:        "C12",
		Technique: "exhaustive enumeration of all participant sequences up to length 6 (thorough 7) over three ordering classes x five Order values (extremes included) through the real sorting helper, and of all sequences up to length 3 for post-processors, runners and loaders through real starts under every registry iteration order; oracle on the output permutation and on the observed invocation log",
		Rule:      "symbols = {PriorityOrdered(o), Ordered(o), unordered : o in {MinInt,-1,0,1,MaxInt}} (11); direct: all sequences of length <=6 (thorough <=7); call sites: all sequences of length <=3 (thorough <=4) as user post-processors / application runners / configuration loaders x all permutations of the registry iteration order; non-trivial = sequence with >=2 participants of one ordered class or of different classes. Families added in later rounds (look-ups inside Init, retries after an abandoned attempt, user extension points at every Order, several containers, odd names / types / values) are listed per part in this file and described in MANIFEST.json (level_claimed.text) and DESIGN §7",
		Assumptions: []string{
			"ties (equal Order within a class, unordered participants) may appear in any relative order",
			"more than 6 (7) participants directly / 3 (4) through a start are not covered",
		},
		Parts: []Part{
			{Name: "equal-participants", Run: c12Equal, Workers: 1, QuickS: 30, ThoroughS: 60},
			{Name: "sort-helper", Run: c12Direct, QuickS: 60, ThoroughS: 600},
			{Name: "call-sites", Run: c12Sites, QuickS: 90, ThoroughS: 900},
			{Name: "large-sets", Run: c12Large, Workers: 4, QuickS: 60, ThoroughS: 120},
			{Name: "loaders-reinitialised", Run: c12Reinit, Workers: 4, QuickS: 30, ThoroughS: 60},
		},
	})
}

var c12Orders = []int{math.MinInt, -1, 0, 1, math.MaxInt}

// symbol 0..4 = P(order i), 5..9 = O(order i), 10 = N
func c12Class(sym int) int { return sym / 5 }
func c12Order(sym int) int {
	if sym >= 10 {
		return 0
	}
	return c12Orders[sym%5]
}

// c12Marker: symbol 11 is a participant with the priority marker but without Order() (class 2).
const c12Marker = 11

func c12Sym(sym int) string {
	if sym == c12Marker {
		return "M"
	}
	if sym >= 10 {
		return "N"
	}
	return fmt.Sprintf("%s(%d)", []string{"P", "O"}[sym/5], c12Orders[sym%5])
}

// contractViolation checks a sequence of (class, order) against the ordering contract.
func contractViolation(classes []int, orders []int) string {
	for i := 1; i < len(classes); i++ {
		if classes[i] < classes[i-1] {
			return fmt.Sprintf("position %d: class %d after class %d (priority-ordered < ordered < unordered violated)", i, classes[i], classes[i-1])
		}
		if classes[i] == classes[i-1] && classes[i] < 2 && orders[i] < orders[i-1] {
			return fmt.Sprintf("position %d: Order %d after Order %d within one class", i, orders[i], orders[i-1])
		}
	}
	return ""
}

type c12Case struct {
	Seq  []int  `json:"symbols"`
	Site string `json:"site,omitempty"`
	Perm []int  `json:"iteration_order,omitempty"`
	Lazy int    `json:"lazy_mask,omitempty"`              // processors: bit i = participant i is LazyInit
	Late bool   `json:"order_known_after_init,omitempty"` // runners: Order() answers 0 until the runner's Init ran
	// Supply (processors): participant Supply-1 answers a third node ("cnode") itself from
	// before-instantiation: its creation is short-cut and the after-initialization callbacks of the
	// whole chain - the supplier included - run over it, in the contract's sequence
	Supply int `json:"supplier_of_a_short_cut_component,omitempty"`
	// HoldApp (runners): every runner wires the App itself; 1: their names sort before the App's own
	// component name (created before it, the App nested inside the first runner's creation), 2: after
	HoldApp int `json:"runners_hold_the_app,omitempty"`
	// Decorate (processors): a further post-processor (priority-ordered, lowest Order value) wraps every
	// priority-ordered post-processor created after it in a decorator that forwards the two initialization callbacks
	// and exposes neither Order() nor Priority(): the participants keep the places their own
	// classes and Order values give them
	Decorate bool `json:"participants_decorated,omitempty"`
}

type c12Decorator struct {
	processors.DefaultComponentPostProcessor
}

func (*c12Decorator) Naming() string { return "0-decorator" }
func (*c12Decorator) Priority()      {}
func (*c12Decorator) Order() int     { return math.MinInt }
func (*c12Decorator) PostProcessAfterInitialization(c any, name string) (any, error) {
	// only the priority-ordered ones: decorating all of them alike would keep their relative places
	// under any re-ordering
	if p, ok := c.(container.ComponentPostProcessor); ok {
		if _, prio := c.(definition.Priority); prio {
			return &struct {
				container.ComponentPostProcessor
			}{p}, nil
		}
	}
	return c, nil
}

func seqs(maxLen, nsym int, yield func([]int) bool) {
	var rec func(cur []int) bool
	rec = func(cur []int) bool {
		if len(cur) > 0 && !yield(append([]int{}, cur...)) {
			return false
		}
		if len(cur) == maxLen {
			return true
		}
		for s := 0; s < nsym; s++ {
			if !rec(append(cur[:len(cur):len(cur)], s)) {
				return false
			}
		}
		return true
	}
	rec(nil)
}

func c12Direct(c *core.Ctx) {
	maxLen := 6
	if c.Thorough() {
		maxLen = 7
	}
	gen := func(yield func(c12Case) bool) {
		seqs(maxLen, 12, func(s []int) bool { return yield(c12Case{Seq: s}) })
	}
	Cases(c, gen, func(c *core.Ctx, cs c12Case) {
		in := make([]any, len(cs.Seq))
		idx := map[any]int{}
		for i, s := range cs.Seq {
			p := scen.Part{Nm: fmt.Sprintf("e%d", i), O: c12Order(s)}
			switch c12Class(s) {
			case 0:
				in[i] = &scen.ElemP{Part: p}
			case 1:
				in[i] = &scen.ElemO{Part: p}
			default:
				in[i] = &scen.ElemN{Part: p}
				if s == c12Marker {
					in[i] = &scen.ElemM{Part: p}
				}
			}
			idx[in[i]] = i
		}
		var out []any
		pan := scen.Protect(func() { out = framework_helper.SortOrderedComponents(in) })
		c.S.Evaluations++
		c.S.Programs++
		c.S.States++
		c.S.Transitions += int64(len(cs.Seq))
		if len(cs.Seq) >= 2 {
			c.S.Nontrivial++
		}
		key := "C12/sort/" + core.Hash(cs.Seq)
		var names []string
		for _, s := range cs.Seq {
			names = append(names, c12Sym(s))
		}
		if pan != "" {
			c.Outcome("panic")
			c.Report(key, "panic", fmt.Sprintf("sorting %v panicked: %s", names, pan), cs)
			return
		}
		seen := map[int]bool{}
		var classes, orders []int
		for _, x := range out {
			i, ok := idx[x]
			if !ok || seen[i] {
				c.Outcome("not-a-permutation")
				c.Report(key, "not-a-permutation", fmt.Sprintf("sorting %v: output is not a permutation of the input (element lost, duplicated or foreign)", names), cs)
				return
			}
			seen[i] = true
			classes = append(classes, c12Class(cs.Seq[i]))
			orders = append(orders, c12Order(cs.Seq[i]))
		}
		if len(out) != len(in) {
			c.Outcome("not-a-permutation")
			c.Report(key, "not-a-permutation", fmt.Sprintf("sorting %v: %d elements in, %d out", names, len(in), len(out)), cs)
			return
		}
		if msg := contractViolation(classes, orders); msg != "" {
			c.Outcome("contract-violated")
			c.Report(key, "order-contract", fmt.Sprintf("sorting %v: %s", names, msg), cs)
			return
		}
		c.Outcome(fmt.Sprintf("ok/len=%d", len(cs.Seq)))
		if c.S.Programs%20000 == 1 {
			c.Sample(map[string]any{"input": names})
		}
	})
}

// c12RunSite starts one program whose participants of the given site are the sequence cs.Seq,
// registered / enumerated in the order cs.Perm, and returns the shared event log.
func c12RunSite(cs c12Case) (names []string, shared *scen.RT, o *scen.StartObs) {
	var comps []any
	var opts []app.SettingOption
	names = make([]string, len(cs.Seq))
	user := map[string]bool{}
	var parts []*scen.Part
	mk := func(i, s int) scen.Part {
		names[i] = fmt.Sprintf("p%d", i)
		if cs.HoldApp == 1 {
			names[i] = fmt.Sprintf("a%d", i) // sorts before github.com/go-kid/ioc/app/App
		}
		user[names[i]] = true
		return scen.Part{Nm: names[i], O: c12Order(s)}
	}
	var loaders []configure.Loader
	var node *scen.N
	for i, s := range cs.Seq {
		p := mk(i, s)
		switch cs.Site {
		case "runners":
			switch {
			case cs.Late && c12Class(s) == 0:
				x := &scen.RunPI{Part: p}
				comps, parts = append(comps, x), append(parts, &x.Part)
				continue
			case cs.Late:
				x := &scen.RunOI{Part: p}
				comps, parts = append(comps, x), append(parts, &x.Part)
				continue
			}
			if cs.HoldApp != 0 && s != c12Marker {
				switch c12Class(s) {
				case 0:
					x := &scen.RunPA{RunP: scen.RunP{Part: p}}
					comps, parts = append(comps, x), append(parts, &x.Part)
				case 1:
					x := &scen.RunOA{RunO: scen.RunO{Part: p}}
					comps, parts = append(comps, x), append(parts, &x.Part)
				default:
					x := &scen.RunNA{RunN: scen.RunN{Part: p}}
					comps, parts = append(comps, x), append(parts, &x.Part)
				}
				continue
			}
			switch c12Class(s) {
			case 0:
				x := &scen.RunP{Part: p}
				comps, parts = append(comps, x), append(parts, &x.Part)
			case 1:
				x := &scen.RunO{Part: p}
				comps, parts = append(comps, x), append(parts, &x.Part)
			default:
				if s == c12Marker {
					x := &scen.RunM{Part: p}
					comps, parts = append(comps, x), append(parts, &x.Part)
					break
				}
				x := &scen.RunN{Part: p}
				comps, parts = append(comps, x), append(parts, &x.Part)
			}
		case "loaders":
			doc := fmt.Sprintf("k%d: 1\n", i)
			switch c12Class(s) {
			case 0:
				x := &scen.LoadP{Part: p, Doc: doc}
				loaders, parts = append(loaders, x), append(parts, &x.Part)
			case 1:
				x := &scen.LoadO{Part: p, Doc: doc}
				loaders, parts = append(loaders, x), append(parts, &x.Part)
			default:
				if s == c12Marker {
					x := &scen.LoadM{Part: p, Doc: doc}
					loaders, parts = append(loaders, x), append(parts, &x.Part)
					break
				}
				x := &scen.LoadN{Part: p, Doc: doc}
				loaders, parts = append(loaders, x), append(parts, &x.Part)
			}
		case "processors":
			lazy := cs.Lazy>>i&1 == 1
			switch {
			case c12Class(s) == 0 && lazy:
				x := &scen.ProcPZ{}
				x.Part = p
				comps, parts = append(comps, x), append(parts, &x.Part)
			case c12Class(s) == 0:
				x := &scen.ProcP{}
				x.Part = p
				comps, parts = append(comps, x), append(parts, &x.Part)
			case c12Class(s) == 1 && lazy:
				x := &scen.ProcOZ{}
				x.Part = p
				comps, parts = append(comps, x), append(parts, &x.Part)
			case c12Class(s) == 1:
				x := &scen.ProcO{}
				x.Part = p
				comps, parts = append(comps, x), append(parts, &x.Part)
			case lazy:
				x := &scen.ProcNZ{}
				x.Part = p
				comps, parts = append(comps, x), append(parts, &x.Part)
			case s == c12Marker:
				x := &scen.ProcM{}
				x.Part = p
				comps, parts = append(comps, x), append(parts, &x.Part)
			default:
				x := &scen.ProcN{}
				x.Part = p
				comps, parts = append(comps, x), append(parts, &x.Part)
			}
		}
	}
	var node2, node3 *scen.N
	if cs.Supply > 0 {
		parts[cs.Supply-1].Supply = "cnode"
		node3 = &scen.N{Nm: "cnode", Q: "qc"}
	}
	if cs.Site == "processors" {
		// two nodes on a cycle, so that the early-reference callbacks run as well
		node, node2 = &scen.N{Nm: "anode", Q: "qa"}, &scen.N{Nm: "bnode", Q: "qb"}
		comps = append(comps, node, node2, scen.NewTagScanner(map[string]map[string]string{"anode": {"S0": "bnode"}, "bnode": {"S0": "anode"}}))
	}
	if cs.Site == "loaders" {
		// loaders are sequenced in the order they were added: apply the permutation there
		var ls []configure.Loader
		for _, i := range cs.Perm {
			ls = append(ls, loaders[i])
		}
		opts = append(opts, app.SetConfigLoader(ls...))
	}
	var base []string
	var reg []any
	for _, i := range cs.Perm {
		base = append(base, names[i])
		if cs.Site != "loaders" {
			reg = append(reg, comps[i])
		}
	}
	if node != nil {
		reg = append(reg, comps[len(comps)-3:]...)
	}
	if node3 != nil {
		reg = append(reg, node3)
	}
	if cs.Decorate {
		reg = append(reg, &c12Decorator{})
	}
	sp := scen.StartSpec{Ch: envx.Fixed("", nil), Comps: reg, Opts: opts, User: user, Base: base}
	// the participants need the runtime that Start creates: give them a shared log first
	shared = &scen.RT{}
	for _, p := range parts {
		p.RT = shared
	}
	if node != nil {
		scen.SetRT(node, shared)
		scen.SetRT(node2, shared)
	}
	if node3 != nil {
		scen.SetRT(node3, shared)
	}
	o = scen.Start(sp)
	return
}

func c12Sites(c *core.Ctx) {
	gen := func(yield func(c12Case) bool) {
		for _, site := range []string{"runners", "loaders", "processors"} {
			ok := true
			maxLen := 3
			if c.Thorough() {
				maxLen = 4
			}
			seqs(maxLen, 12, func(s []int) bool {
				n := len(s)
				for k := 0; k < factorialInt(n); k++ {
					if ok = yield(c12Case{Seq: s, Site: site, Perm: scen.NthPerm(n, k)}); !ok {
						return false
					}
				}
				if site == "runners" && n <= 3 {
					late := true
					for _, x := range s {
						late = late && c12Class(x) != 2
					}
					for _, k := range []int{0, factorialInt(n) - 1} {
						if late {
							if ok = yield(c12Case{Seq: s, Site: site, Perm: scen.NthPerm(n, k), Late: true}); !ok {
								return false
							}
						}
						if n == 1 {
							break
						}
					}
				}
				if site == "runners" && n <= 3 {
					for hold := 1; hold <= 2; hold++ {
						for _, k := range []int{0, factorialInt(n) - 1} {
							if ok = yield(c12Case{Seq: s, Site: site, Perm: scen.NthPerm(n, k), HoldApp: hold}); !ok {
								return false
							}
							if n == 1 {
								break
							}
						}
					}
				}
				if site == "processors" && n <= 3 {
					// every mix of LazyInit and ordinary processors, identity and reversed iteration order
					for m := 1; m < 1<<n; m++ {
						for _, k := range []int{0, factorialInt(n) - 1} {
							if ok = yield(c12Case{Seq: s, Site: site, Perm: scen.NthPerm(n, k), Lazy: m}); !ok {
								return false
							}
							if n == 1 {
								break
							}
						}
					}
					// the participants decorated by an earlier processor
					for _, k := range []int{0, factorialInt(n) - 1} {
						if ok = yield(c12Case{Seq: s, Site: site, Perm: scen.NthPerm(n, k), Decorate: true}); !ok {
							return false
						}
						if n == 1 {
							break
						}
					}
					// each participant in turn supplies a short-cut component
					for sup := 1; sup <= n; sup++ {
						for _, k := range []int{0, factorialInt(n) - 1} {
							if ok = yield(c12Case{Seq: s, Site: site, Perm: scen.NthPerm(n, k), Supply: sup}); !ok {
								return false
							}
							if n == 1 {
								break
							}
						}
					}
				}
				return true
			})
			if !ok {
				return
			}
		}
	}
	Cases(c, gen, func(c *core.Ctx, cs c12Case) {
		names, shared, o := c12RunSite(cs)
		c.S.Evaluations++
		c.S.Programs++
		c.S.States++
		c.S.Transitions += int64(o.Trace.Calls)
		if len(cs.Seq) >= 2 {
			c.S.Nontrivial++
		}
		var symn []string
		for _, s := range cs.Seq {
			symn = append(symn, c12Sym(s))
		}
		key := "C12/" + cs.Site + "/" + core.Hash(cs.Seq, cs.Perm, cs.Lazy, cs.Late, cs.Supply, cs.HoldApp, cs.Decorate)
		if !o.OK() {
			c.Outcome(cs.Site + "/start-failed")
			c.Report(key, "start-failed", fmt.Sprintf("%s %v: start-up did not succeed: %v %s %s", cs.Site, symn, scen.FirstLine(o.Err), o.Panic, o.Abort), cs)
			return
		}
		prefix := map[string]string{"runners": "run:", "loaders": "load:", "processors": "before:"}[cs.Site]
		target := "" // processors: the callbacks for one node at a time
		if cs.Site == "processors" {
			target = ":anode"
		}
		check := func(prefix string) bool {
			var classes, orders []int
			seen := map[string]int{}
			for _, e := range shared.Log {
				if !strings.HasPrefix(e, prefix) || !strings.HasSuffix(e, target) {
					continue // per component: the callbacks for one node
				}
				nm := strings.SplitN(strings.TrimPrefix(e, prefix), ":", 2)[0]
				seen[nm]++
				var i int
				fmt.Sscanf(nm[1:], "%d", &i)
				classes = append(classes, c12Class(cs.Seq[i]))
				orders = append(orders, c12Order(cs.Seq[i]))
			}
			for _, nm := range names {
				if seen[nm] != 1 {
					c.Outcome(cs.Site + "/not-once")
					c.Report(key, "not-exactly-once", fmt.Sprintf("%s %v (iteration order %v): participant %s invoked %d times (%s...), log=%v", cs.Site, symn, cs.Perm, nm, seen[nm], prefix, shared.Log), cs)
					return false
				}
			}
			if msg := contractViolation(classes, orders); msg != "" {
				c.Outcome(cs.Site + "/contract-violated")
				c.Report(key, "order-contract", fmt.Sprintf("%s %v (iteration order %v, lazy mask %b): invocation sequence %v: %s", cs.Site, symn, cs.Perm, cs.Lazy, shared.Log, msg), cs)
				return false
			}
			return true
		}
		if !check(prefix) {
			return
		}
		if cs.Site == "processors" && cs.Decorate {
			if !check("after:") {
				return
			}
		} else if cs.Site == "processors" {
			for _, pf := range []string{"after:", "binst:", "ainst:", "props:", "early:"} {
				if !check(pf) {
					return
				}
			}
			if cs.Supply > 0 {
				// the short-cut component: after-initialization by every participant, in sequence
				target = ":cnode"
				if !check("after:") {
					return
				}
			}
		}
		c.Outcome(fmt.Sprintf("%s/ok/len=%d", cs.Site, len(cs.Seq)))
		if c.S.Programs%700 == 1 {
			c.Sample(map[string]any{"site": cs.Site, "participants": symn, "iteration_order": cs.Perm, "invocation_log": shared.Log})
		}
	})
}

// ---- participants that are indistinguishable by value (equal fields, shared state) are still
// distinct participants: each appears - is invoked - exactly once

type c12CountLoader struct {
	Doc   string
	Count *int
}

func (l *c12CountLoader) LoadConfig() ([]byte, error) {
	*l.Count++
	return []byte(l.Doc), nil
}

type c12CountRunner struct {
	Nm    string
	Count *int
}

func (r *c12CountRunner) Naming() string { return r.Nm }
func (r *c12CountRunner) Run() error     { *r.Count++; return nil }

type c12EqualCase struct {
	Site string `json:"site"` // loaders-set loaders-add loaders-direct loaders-mixed
	K    int    `json:"participants"`
}

func c12Equal(c *core.Ctx) {
	gen := func(yield func(c12EqualCase) bool) {
		for _, site := range []string{"loaders-set", "loaders-add", "loaders-direct", "loaders-mixed"} {
			for k := 2; k <= 4; k++ {
				if !yield(c12EqualCase{site, k}) {
					return
				}
			}
		}
	}
	Cases(c, gen, func(c *core.Ctx, cs c12EqualCase) {
		count := 0
		var ls []configure.Loader
		for i := 0; i < cs.K; i++ {
			ls = append(ls, &c12CountLoader{Doc: "k: 1\n", Count: &count}) // equal by value, distinct instances
		}
		var opts []app.SettingOption
		switch cs.Site {
		case "loaders-set":
			opts = append(opts, app.SetConfigLoader(ls...))
		case "loaders-add":
			opts = append(opts, app.SetConfigLoader(), app.AddConfigLoader(ls...))
		case "loaders-direct":
			opts = append(opts, app.SetConfigLoader(), func(a *app.App) { a.Configure.AddLoaders(ls...) })
		case "loaders-mixed":
			opts = append(opts, app.SetConfigLoader(ls[0]))
			for _, l := range ls[1:] {
				opts = append(opts, app.AddConfigLoader(l))
			}
		}
		o := scen.Start(scen.StartSpec{Ch: envx.Fixed("", nil), Comps: nil, Opts: opts})
		c.S.Evaluations++
		c.S.Programs++
		c.S.States++
		c.S.Transitions += int64(cs.K)
		c.S.Nontrivial++
		switch {
		case !o.OK():
			c.Outcome("equal/start-failed")
			c.Report("C12/equal/"+core.Hash(cs), "start-failed", fmt.Sprintf("%d value-equal loaders via %s: start-up failed: %v %s", cs.K, cs.Site, scen.FirstLine(o.Err), o.Panic), cs)
		case count != cs.K:
			c.Outcome("equal/not-once")
			c.Report("C12/equal/"+core.Hash(cs), "not-exactly-once", fmt.Sprintf("%d distinct loaders with equal field values registered through %s: %d LoadConfig calls were made, want one per participant", cs.K, cs.Site, count), cs)
		default:
			c.Outcome("equal/each-once")
		}
		c.Sample(map[string]any{"case": cs, "load_calls": count})
	})
}

// ---- large participant sets (library sorts switch algorithm above a dozen elements): complete
// structured families through the real helper and as application runners

type c12LargeCase struct {
	N       int    `json:"participants"`
	Pattern string `json:"pattern"` // how Order values are laid out before rotation
	Rot     int    `json:"rotation"`
	Classes int    `json:"class_layout"` // 0: i%3, 1: i%2 (priority/ordered only), 2: blocks reversed (unordered first)
	Runners bool   `json:"as_application_runners,omitempty"`
}

func c12LargeSeq(cs c12LargeCase) (classes, orders []int) {
	n := cs.N
	for i := 0; i < n; i++ {
		var o int
		switch cs.Pattern {
		case "descending":
			o = n - i
		case "ascending":
			o = i
		case "stride7":
			o = (i * 7) % n
		default: // "zigzag"
			o = i / 2
			if i%2 == 1 {
				o = n - i/2
			}
		}
		var cl int
		switch cs.Classes {
		case 0:
			cl = i % 3
		case 1:
			cl = i % 2
		default:
			cl = 2 - (i*3)/n
		}
		classes, orders = append(classes, cl), append(orders, o)
	}
	r := cs.Rot % n
	classes = append(classes[r:], classes[:r]...)
	orders = append(orders[r:], orders[:r]...)
	return
}

func c12Large(c *core.Ctx) { c12LargeRun(c, "C12", false) }

// c13Many: the runner half of the family, under C13's name (more than a dozen runners).
func c13Many(c *core.Ctx) { c12LargeRun(c, "C13", true) }

func c12LargeRun(c *core.Ctx, prop string, runnersOnly bool) {
	gen := func(yield func(c12LargeCase) bool) {
		helperSizes := []int{12, 13, 14, 17, 25, 50}
		runnerSizes := []int{13, 16, 24}
		if runnersOnly {
			helperSizes, runnerSizes = nil, []int{13, 14, 16, 24, 40}
		}
		for _, n := range helperSizes {
			for _, pat := range []string{"descending", "ascending", "stride7", "zigzag"} {
				for cl := 0; cl < 3; cl++ {
					for r := 0; r < n; r++ {
						if !yield(c12LargeCase{N: n, Pattern: pat, Rot: r, Classes: cl}) {
							return
						}
					}
				}
			}
		}
		for _, n := range runnerSizes {
			for _, pat := range []string{"descending", "stride7"} {
				for cl := 0; cl < 2; cl++ {
					for _, r := range []int{0, 1, n / 2} {
						if !yield(c12LargeCase{N: n, Pattern: pat, Rot: r, Classes: cl, Runners: true}) {
							return
						}
					}
				}
			}
		}
	}
	Cases(c, gen, func(c *core.Ctx, cs c12LargeCase) {
		classes, orders := c12LargeSeq(cs)
		c.S.Evaluations++
		c.S.Programs++
		c.S.States++
		c.S.Nontrivial++
		c.S.Transitions += int64(cs.N)
		key := prop + "/large/" + core.Hash(cs)
		desc := fmt.Sprintf("%d participants (pattern %s, class layout %d, rotation %d)", cs.N, cs.Pattern, cs.Classes, cs.Rot)
		var gotC, gotO []int
		seen := map[int]int{}
		if cs.Runners {
			rt := &scen.RT{}
			var comps []any
			for i := range classes {
				p := scen.Part{Nm: fmt.Sprintf("p%d", i), O: orders[i], RT: rt}
				switch classes[i] {
				case 0:
					comps = append(comps, &scen.RunP{Part: p})
				case 1:
					comps = append(comps, &scen.RunO{Part: p})
				default:
					comps = append(comps, &scen.RunN{Part: p})
				}
			}
			o := scen.Start(scen.StartSpec{Ch: envx.Fixed("", nil), Comps: comps})
			if !o.OK() {
				c.Outcome("large/start-failed")
				c.Report(key, "start-failed", desc+": start-up did not succeed: "+scen.FirstLine(o.Err)+o.Panic+o.Abort, cs)
				return
			}
			for _, e := range rt.Log {
				var i int
				if _, err := fmt.Sscanf(e, "run:p%d", &i); err == nil {
					seen[i]++
					gotC, gotO = append(gotC, classes[i]), append(gotO, orders[i])
				}
			}
		} else {
			in := make([]any, cs.N)
			idx := map[any]int{}
			for i := range classes {
				p := scen.Part{Nm: fmt.Sprintf("e%d", i), O: orders[i]}
				switch classes[i] {
				case 0:
					in[i] = &scen.ElemP{Part: p}
				case 1:
					in[i] = &scen.ElemO{Part: p}
				default:
					in[i] = &scen.ElemN{Part: p}
				}
				idx[in[i]] = i
			}
			var out []any
			if pan := scen.Protect(func() { out = framework_helper.SortOrderedComponents(in) }); pan != "" {
				c.Outcome("large/panic")
				c.Report(key, "panic", desc+": the sorting helper panicked: "+pan, cs)
				return
			}
			for _, x := range out {
				i, ok := idx[x]
				if !ok {
					i = -1
				}
				seen[i]++
				if ok {
					gotC, gotO = append(gotC, classes[i]), append(gotO, orders[i])
				}
			}
		}
		for i := 0; i < cs.N; i++ {
			if seen[i] != 1 || len(seen) != cs.N {
				c.Outcome("large/not-a-permutation")
				c.Report(key, "not-exactly-once", fmt.Sprintf("%s: participant %d appears %d times in the sequence (%d distinct)", desc, i, seen[i], len(seen)), cs)
				return
			}
		}
		if msg := contractViolation(gotC, gotO); msg != "" {
			c.Outcome("large/contract-violated")
			c.Report(key, "order-contract", fmt.Sprintf("%s: sequence of (class, Order) %v / %v: %s", desc, gotC, gotO, msg), cs)
			return
		}
		c.Outcome(fmt.Sprintf("large/ok/n=%d/runners=%v", cs.N, cs.Runners))
		if c.S.Programs%200 == 1 {
			c.Sample(map[string]any{"case": cs})
		}
	})
}

// ---- loaders added after a first Initialize: the second pass sequences all of them by the contract

func c12Reinit(c *core.Ctx) {
	type rc struct {
		Seq   []int `json:"symbols"`
		Split int   `json:"added_before_the_first_initialize"`
	}
	gen := func(yield func(rc) bool) {
		seqs(3, 12, func(s []int) bool {
			for k := 1; k < len(s); k++ {
				if !yield(rc{append([]int{}, s...), k}) {
					return false
				}
			}
			return true
		})
	}
	Cases(c, gen, func(c *core.Ctx, cs rc) {
		rt := &scen.RT{}
		var loaders []configure.Loader
		for i, s := range cs.Seq {
			p := scen.Part{Nm: fmt.Sprintf("p%d", i), O: c12Order(s), RT: rt}
			doc := fmt.Sprintf("k%d: 1\n", i)
			switch {
			case c12Class(s) == 0:
				loaders = append(loaders, &scen.LoadP{Part: p, Doc: doc})
			case c12Class(s) == 1:
				loaders = append(loaders, &scen.LoadO{Part: p, Doc: doc})
			case s == c12Marker:
				loaders = append(loaders, &scen.LoadM{Part: p, Doc: doc})
			default:
				loaders = append(loaders, &scen.LoadN{Part: p, Doc: doc})
			}
		}
		cfg := configure.NewConfigure()
		cfg.SetBinder(binder.NewViperBinder("yaml"))
		var err1, err2 error
		pan := scen.Protect(func() {
			cfg.AddLoaders(loaders[:cs.Split]...)
			err1 = cfg.Initialize()
			rt.Log = nil
			cfg.AddLoaders(loaders[cs.Split:]...)
			err2 = cfg.Initialize()
		})
		c.S.Evaluations++
		c.S.Programs++
		c.S.States++
		c.S.Nontrivial++
		c.S.Transitions += int64(len(rt.Log))
		var symn []string
		for _, s := range cs.Seq {
			symn = append(symn, c12Sym(s))
		}
		key := "C12/loaders-reinitialised/" + core.Hash(cs)
		if pan != "" || err1 != nil || err2 != nil {
			c.Outcome("reinit/failed")
			c.Report(key, "start-failed", fmt.Sprintf("loaders %v, %d added before the first Initialize: %v %v %s", symn, cs.Split, err1, err2, pan), cs)
			return
		}
		var classes, orders []int
		seen := map[int]int{}
		for _, e := range rt.Log {
			var i int
			if _, err := fmt.Sscanf(e, "load:p%d", &i); err == nil {
				seen[i]++
				classes = append(classes, c12Class(cs.Seq[i]))
				orders = append(orders, c12Order(cs.Seq[i]))
			}
		}
		for i := range cs.Seq {
			if seen[i] != 1 {
				c.Outcome("reinit/not-once")
				c.Report(key, "not-exactly-once", fmt.Sprintf("loaders %v, %d added before the first Initialize: in the second pass loader p%d was invoked %d times; log %v", symn, cs.Split, i, seen[i], rt.Log), cs)
				return
			}
		}
		if msg := contractViolation(classes, orders); msg != "" {
			c.Outcome("reinit/contract-violated")
			c.Report(key, "order-contract", fmt.Sprintf("loaders %v, %d added before the first Initialize: the second pass invoked them as %v: %s", symn, cs.Split, rt.Log, msg), cs)
			return
		}
		c.Outcome(fmt.Sprintf("reinit/ok/len=%d", len(cs.Seq)))
	})
}
