package props

import (
	"fmt"
	"os"
	"path/filepath"
	"reflect"
	"sort"
	"strings"

	"github.com/go-kid/ioc/app"
	"github.com/go-kid/ioc/configure"
	"github.com/go-kid/ioc/configure/loader"
	"gopkg.in/yaml.v3"

	"verif/internal/core"
	"verif/internal/envx"
	"verif/internal/scen"
)

func init() {
	register(&Driver{
		ID:        "C15",
		Technique: "exhaustive enumeration of source-configuration histories: all sequences of <=3 option steps (SetConfigLoader / AddConfigLoader / SetConfig(file) / Configure.AddLoaders) x loader kind (raw, file, command-line args) x six key trees, each a real start; reference model = deep merge of the individually parsed loader outputs in the container's loader sequence",
		Rule:      "steps = {set, add, add-file, add-direct} x {raw, file, args} x 6 documents with overlapping and disjoint keys (nested map c.d / c.e, scalars a, b); all sequences of length <=3 (thorough: +length 4 over a reduced document set); plus <=3 loaders handed over in one option with the same option used for two consecutive starts; observed through App.Get of every path of the union tree and a prefix-bound struct; non-trivial = >=2 effective sources. Families added in later rounds (look-ups inside Init, retries after an abandoned attempt, user extension points at every Order, several containers, odd names / types / values) are listed per part in this file and described in MANIFEST.json (level_claimed.text) and DESIGN §7",
		Assumptions: []string{
			"SetConfigLoader legitimately replaces earlier sources (it sets); every other option adds",
			"two file loaders have equal rank: for a key both supply either value is accepted",
			"documents never use one path as a map in one source and as a scalar in another",
		},
		Parts: []Part{
			{Name: "merge", Run: c15Run, QuickS: 90, ThoroughS: 900},
			{Name: "reuse", Run: c15Reuse, QuickS: 60, ThoroughS: 600},
			{Name: "reinitialize", Run: c15Reinit, QuickS: 60, ThoroughS: 300},
		},
	})
}

type c15Doc struct {
	yaml string
	args []string
}

var c15Docs = []c15Doc{
	{"a: 1\n", []string{"--app.config=a=1"}},
	{"a: 2\n", []string{"positional", "--", "--app.config=a=2"}}, // the loader takes its arguments wherever they stand
	{"b: 1\n", []string{"--app.config=b=1"}},
	{"c:\n  d: 1\n", []string{"--app.config=c.d=1"}},
	{"c:\n  e: 2\n", []string{"--app.config=c.e=2"}},
	{"a: 3\nc:\n  d: 2\n  e: 3\n", []string{"--app.config=a=3", "--app.config=c.d=2", "--app.config=c.e=3"}},
	// keys spelled like variables of the process environment (PATH, HOME)
	{"path: p1\nhome:\n  dir: h1\n", []string{"--app.config=path=p1", "--app.config=home.dir=h1"}},
	{c15NullYaml, nil},
}

var c15Paths = []string{"a", "b", "c.d", "c.e", "path", "home.dir"}

// c15NullDoc: a source that supplies a scalar key with a null value: the last supplier wins also
// when what it supplies is "nothing" (a null over a whole subtree is left out: what a deep merge does
// with it is not fixed by the statement, and viper keeps the subtree). Its index is len(c15Docs)-1; the
// general alphabets stop before it (c15Main).
const c15NullYaml = "a: ~\nb: 1\n"

var c15Main = 7

type c15Step struct {
	Way  string `json:"way"`  // set add file direct
	Kind string `json:"kind"` // raw file args
	Doc  int    `json:"doc"`
	// Name (file loaders): how the file is called - 0 docN.yaml, 1 docN.yml, 2 docN (no extension),
	// 3 docN.conf, 4 docN.yaml.local; the content is the same YAML document
	Name int `json:"file_name,omitempty"`
}

type c15Case struct {
	Steps []c15Step `json:"steps"`
}

type c15Holder struct {
	C struct {
		D int `yaml:"d"`
		E int `yaml:"e"`
	} `prefix:"c,required=false"`
	A int `prop:"a:0"`
}

func c15Gen(c *core.Ctx) func(yield func(c15Case) bool) {
	return func(yield func(c15Case) bool) {
		var steps []c15Step
		for d := 0; d < c15Main; d++ {
			for _, w := range []string{"set", "add", "direct"} {
				for _, k := range []string{"raw", "file", "args"} {
					steps = append(steps, c15Step{Way: w, Kind: k, Doc: d})
				}
			}
			steps = append(steps, c15Step{Way: "file", Kind: "file", Doc: d})
		}
		var rec func(cur []c15Step, max int, alphabet []c15Step) bool
		rec = func(cur []c15Step, max int, alphabet []c15Step) bool {
			if len(cur) > 0 && !yield(c15Case{append([]c15Step{}, cur...)}) {
				return false
			}
			if len(cur) == max {
				return true
			}
			for _, s := range alphabet {
				if !rec(append(cur[:len(cur):len(cur)], s), max, alphabet) {
					return false
				}
			}
			return true
		}
		if !rec(nil, 3, steps) {
			return
		}
		// the same documents in files called differently (the name of a file says nothing about the
		// other sources): all histories of <= 2 steps
		var named []c15Step
		for d := 0; d < c15Main; d++ {
			for _, w := range []string{"set", "add"} {
				for _, k := range []string{"raw", "args"} {
					named = append(named, c15Step{Way: w, Kind: k, Doc: d})
				}
			}
			for name := 1; name < len(c15Exts); name++ {
				for _, w := range []string{"set", "add", "direct", "file"} {
					named = append(named, c15Step{Way: w, Kind: "file", Doc: d, Name: name})
				}
			}
		}
		if !rec(nil, 2, named) {
			return
		}
		// a source that supplies nulls, before and after every other source (raw and file, every way)
		var nulls []c15Step
		for d := 0; d < len(c15Docs); d++ {
			for _, w := range []string{"set", "add", "direct"} {
				for _, k := range []string{"raw", "file"} {
					nulls = append(nulls, c15Step{Way: w, Kind: k, Doc: d})
				}
			}
		}
		var recN func(cur []c15Step) bool
		recN = func(cur []c15Step) bool {
			hasNull := false
			for _, s := range cur {
				hasNull = hasNull || s.Doc == len(c15Docs)-1
			}
			if hasNull && !yield(c15Case{append([]c15Step{}, cur...)}) {
				return false
			}
			if len(cur) == 3 {
				return true
			}
			for _, s := range nulls {
				if len(cur) == 2 && !hasNull && s.Doc != len(c15Docs)-1 {
					continue
				}
				if !recN(append(cur[:len(cur):len(cur)], s)) {
					return false
				}
			}
			return true
		}
		if !recN(nil) {
			return
		}
		if c.Thorough() {
			var small []c15Step
			for _, s := range steps {
				if s.Doc == 0 || s.Doc == 1 || s.Doc == 3 || s.Doc == 5 {
					if s.Kind != "args" || s.Way == "add" {
						small = append(small, s)
					}
				}
			}
			var rec4 func(cur []c15Step) bool
			rec4 = func(cur []c15Step) bool {
				if len(cur) == 4 {
					return yield(c15Case{append([]c15Step{}, cur...)})
				}
				for _, s := range small {
					if !rec4(append(cur[:len(cur):len(cur)], s)) {
						return false
					}
				}
				return true
			}
			rec4(nil)
		}
	}
}

func c15Flatten(prefix string, m map[string]any, out map[string]string) {
	for k, v := range m {
		p := k
		if prefix != "" {
			p = prefix + "." + k
		}
		if sm, ok := v.(map[string]any); ok {
			c15Flatten(p, sm, out)
		} else if v == nil {
			// a null: this source supplies "nothing" for the key and for everything below it
			for _, q := range c15Paths {
				if q == p || strings.HasPrefix(q, p+".") {
					out[q] = "<null>"
				}
			}
		} else {
			out[p] = fmt.Sprint(v)
		}
	}
}

var c15Files []string

var c15Exts = []string{".yaml", ".yml", "", ".conf", ".yaml.local"}

// c15File: the file of document doc under its name-th name.
func c15File(doc, name int) string {
	return strings.TrimSuffix(c15Files[doc], ".yaml") + c15Exts[name]
}

func c15Setup() {
	if c15Files != nil {
		return
	}
	dir := os.Getenv("VERIF_SCRATCH")
	if dir == "" {
		dir = filepath.Join(os.TempDir(), fmt.Sprintf("verif-c15-%d", os.Getpid()))
	}
	os.MkdirAll(dir, 0o755)
	for i, d := range c15Docs {
		f := filepath.Join(dir, fmt.Sprintf("doc%d.yaml", i))
		if err := os.WriteFile(f, []byte(d.yaml), 0o644); err != nil {
			panic(err)
		}
		c15Files = append(c15Files, f)
		for _, ext := range c15Exts[1:] {
			if err := os.WriteFile(strings.TrimSuffix(f, ".yaml")+ext, []byte(d.yaml), 0o644); err != nil {
				panic(err)
			}
		}
	}
}

func c15Run(c *core.Ctx) {
	c15Setup()
	Cases(c, c15Gen(c), func(c *core.Ctx, cs c15Case) {
		mk := func(s c15Step) configure.Loader {
			switch s.Kind {
			case "raw":
				return loader.NewRawLoader([]byte(c15Docs[s.Doc].yaml))
			case "file":
				return loader.NewFileLoader(c15File(s.Doc, s.Name))
			}
			return loader.NewArgsLoader(c15Docs[s.Doc].args)
		}
		// reference: which sources are effective, split by rank
		type src struct {
			file bool
			vals map[string]string
		}
		var eff []src
		var opts []app.SettingOption
		for _, s := range cs.Steps {
			l := mk(s)
			m := map[string]any{}
			yaml.Unmarshal([]byte(c15Docs[s.Doc].yaml), &m)
			vals := map[string]string{}
			c15Flatten("", m, vals)
			e := src{file: s.Kind == "file", vals: vals}
			switch s.Way {
			case "set":
				eff = []src{e}
				opts = append(opts, app.SetConfigLoader(l))
			case "add":
				eff = append(eff, e)
				opts = append(opts, app.AddConfigLoader(l))
			case "file":
				eff = append(eff, e)
				opts = append(opts, app.SetConfig(c15File(s.Doc, s.Name)))
			case "direct":
				eff = append(eff, e)
				opts = append(opts, func(a *app.App) { a.Configure.AddLoaders(l) })
			}
		}
		// the loader sequence: files first, in the order they were added (they share one rank and
		// the sequence keeps equally ranked loaders in their added order), then the others in added
		// order; per path the last supplier wins
		admissible := map[string]map[string]bool{}
		for _, p := range c15Paths {
			last := ""
			for _, e := range eff {
				if v, ok := e.vals[p]; ok && e.file {
					last = v
				}
			}
			for _, e := range eff {
				if v, ok := e.vals[p]; ok && !e.file {
					last = v
				}
			}
			if last != "" {
				admissible[p] = map[string]bool{last: true}
			}
		}
		h := &c15Holder{}
		got := map[string]string{}
		o := scen.Start(scen.StartSpec{Ch: envx.Fixed("", nil), Comps: []any{h}, Opts: opts, After: func(o *scen.StartObs) {
			for _, p := range c15Paths {
				if v := o.App.Get(p); v != nil {
					got[p] = fmt.Sprint(v)
				}
			}
		}})
		c.S.Evaluations++
		c.S.Programs++
		c.S.States++
		c.S.Transitions += int64(len(cs.Steps)) + int64(o.Trace.Calls)
		if len(eff) >= 2 {
			c.S.Nontrivial++
		}
		key := "C15/merge/" + core.Hash(cs.Steps)
		desc := func() string {
			var parts []string
			for _, s := range cs.Steps {
				parts = append(parts, fmt.Sprintf("%s(%s %q)", s.Way, s.Kind, strings.TrimSpace(strings.ReplaceAll(c15Docs[s.Doc].yaml, "\n", " "))))
			}
			return strings.Join(parts, " ; ")
		}
		if !o.OK() {
			c.Outcome("start-failed")
			c.Report(key, "start-failed", fmt.Sprintf("%s: start-up failed: %v %s %s", desc(), scen.FirstLine(o.Err), o.Panic, o.Abort), cs)
			return
		}
		var ps []string
		for p := range admissible {
			ps = append(ps, p)
		}
		for p := range got {
			if _, ok := admissible[p]; !ok {
				ps = append(ps, p)
			}
		}
		sort.Strings(ps)
		for _, p := range ps {
			adm := admissible[p]
			if adm["<null>"] {
				// the last supplier gave a null: the key reads as absent
				if got[p] != "" {
					c.Outcome("wrong-value")
					c.Report(key, "wrong-value", fmt.Sprintf("%s: effective value of %q is %q, but the last source that supplies it gives a null", desc(), p, got[p]), cs)
					return
				}
				continue
			}
			if !adm[got[p]] {
				var want []string
				for v := range adm {
					want = append(want, v)
				}
				kind := "wrong-value"
				if got[p] == "" {
					kind = "source-dropped"
				}
				c.Outcome(kind)
				c.Report(key, kind, fmt.Sprintf("%s: effective value of %q is %q, deep merge in loader order gives %v", desc(), p, got[p], want), cs)
				return
			}
		}
		// the prefix-bound struct and the prop-bound scalar see the same merged tree
		wantStruct := [3]string{got["c.d"], got["c.e"], got["a"]}
		gotStruct := [3]string{fmt.Sprint(h.C.D), fmt.Sprint(h.C.E), fmt.Sprint(h.A)}
		for i := range wantStruct {
			if wantStruct[i] == "" {
				wantStruct[i] = "0"
			}
		}
		if !reflect.DeepEqual(wantStruct, gotStruct) {
			c.Outcome("binding-differs")
			c.Report(key, "binding-differs", fmt.Sprintf("%s: bound fields (c.d, c.e, a) = %v but App.Get gives %v", desc(), gotStruct, wantStruct), cs)
			return
		}
		c.Outcome(fmt.Sprintf("ok/sources=%d", len(eff)))
		if c.S.Programs%15000 == 1 {
			c.Sample(map[string]any{"steps": desc(), "effective": got})
		}
	})
}

// ---- several loaders handed over in one option, and the same options used for a second start:
// sequencing the loaders of one container must not disturb what the caller configured.

type c15ReuseCase struct {
	Way     string    `json:"way"` // set (SetConfigLoader(l...)) or add (AddConfigLoader(l...))
	Loaders []c15Step `json:"loaders"`
}

func c15Reuse(c *core.Ctx) {
	c15Setup()
	gen := func(yield func(c15ReuseCase) bool) {
		var ls []c15Step
		for d := 0; d < c15Main; d++ {
			for _, k := range []string{"raw", "file", "args"} {
				ls = append(ls, c15Step{Kind: k, Doc: d})
			}
		}
		for _, way := range []string{"set", "add"} {
			for _, a := range ls {
				for _, b := range ls {
					if !yield(c15ReuseCase{way, []c15Step{a, b}}) {
						return
					}
					if way == "add" && !c.Thorough() {
						continue
					}
					for _, d := range ls {
						if !yield(c15ReuseCase{way, []c15Step{a, b, d}}) {
							return
						}
					}
				}
			}
		}
	}
	Cases(c, gen, func(c *core.Ctx, cs c15ReuseCase) {
		var loaders []configure.Loader
		admissible := map[string]map[string]bool{}
		type src struct {
			file bool
			vals map[string]string
		}
		var eff []src
		for _, s := range cs.Loaders {
			switch s.Kind {
			case "raw":
				loaders = append(loaders, loader.NewRawLoader([]byte(c15Docs[s.Doc].yaml)))
			case "file":
				loaders = append(loaders, loader.NewFileLoader(c15File(s.Doc, s.Name)))
			default:
				loaders = append(loaders, loader.NewArgsLoader(c15Docs[s.Doc].args))
			}
			m := map[string]any{}
			yaml.Unmarshal([]byte(c15Docs[s.Doc].yaml), &m)
			vals := map[string]string{}
			c15Flatten("", m, vals)
			eff = append(eff, src{s.Kind == "file", vals})
		}
		for _, p := range c15Paths {
			adm := map[string]bool{}
			last := ""
			for _, e := range eff {
				if v, ok := e.vals[p]; ok && e.file {
					adm[v] = true
				}
			}
			for _, e := range eff {
				if v, ok := e.vals[p]; ok && !e.file {
					last = v
				}
			}
			if last != "" {
				adm = map[string]bool{last: true}
			}
			if len(adm) > 0 {
				admissible[p] = adm
			}
		}
		// the options are built once and used for two consecutive containers
		var opt app.SettingOption
		if cs.Way == "set" {
			opt = app.SetConfigLoader(loaders...)
		} else {
			opt = app.AddConfigLoader(loaders...)
		}
		c.S.Programs++
		c.S.Nontrivial++
		key := "C15/reuse/" + core.Hash(cs)
		for round := 1; round <= 2; round++ {
			got := map[string]string{}
			o := scen.Start(scen.StartSpec{Ch: envx.Fixed("", nil), Comps: []any{&c15Holder{}}, Opts: []app.SettingOption{opt}, After: func(o *scen.StartObs) {
				for _, p := range c15Paths {
					if v := o.App.Get(p); v != nil {
						got[p] = fmt.Sprint(v)
					}
				}
			}})
			c.S.Evaluations++
			c.S.States++
			c.S.Transitions += int64(len(loaders))
			if !o.OK() {
				c.Outcome("start-failed")
				c.Report(key, "start-failed", fmt.Sprintf("%s(%v) start %d failed: %v %s", cs.Way, cs.Loaders, round, scen.FirstLine(o.Err), o.Panic), cs)
				return
			}
			for _, p := range c15Paths {
				if adm, ok := admissible[p]; (ok && !adm[got[p]]) || (!ok && got[p] != "") {
					kind := "wrong-value"
					if got[p] == "" {
						kind = "source-dropped"
					}
					c.Outcome(fmt.Sprintf("round%d/%s", round, kind))
					c.Report(key, kind, fmt.Sprintf("%s of loaders %v, start %d with the same option: effective value of %q is %q, admissible %v", cs.Way, cs.Loaders, round, p, got[p], adm), cs)
					return
				}
			}
		}
		c.Outcome("both-starts-as-reference")
		if c.S.Programs%2000 == 1 {
			c.Sample(map[string]any{"way": cs.Way, "loaders": cs.Loaders})
		}
	})
}
