package props

import (
	"fmt"
	"sort"

	"verif/internal/core"
	"verif/internal/envx"
	"verif/internal/scen"
)

// Lazy candidates of a single-valued by-type point: the holder receives one candidate; a LazyInit
// candidate that was passed over is needed by nobody and must not be created, let alone initialised.

type c5I interface{ Who() string }

type c5Base struct {
	Id, Name string
	Inits    int
}

func (b *c5Base) Who() string    { return b.Id }
func (b *c5Base) Naming() string { return b.Name }
func (b *c5Base) Init() error    { b.Inits++; return nil }
func (b *c5Base) Ping()          {} // the method the func-tag variant of the point asks for

type c5Eager struct{ c5Base }
type c5EagerPrim struct{ c5Base }

func (*c5EagerPrim) Primary() {}

type c5Lazy struct{ c5Base }

func (*c5Lazy) LazyInit() {}

type c5LazyPrim struct{ c5Base }

func (*c5LazyPrim) LazyInit() {}
func (*c5LazyPrim) Primary()  {}

type c5Holder struct {
	F c5I `wire:""`
}
type c5HolderOpt struct {
	F c5I `wire:",required=false"`
}

// the same point declared with the func tag (every candidate has the method)
type c5HolderFn struct {
	F c5I `func:"Ping"`
}
type c5HolderFnOpt struct {
	F c5I `func:"Ping,required=false"`
}

type c5Prov struct {
	Lazy  bool `json:"lazy,omitempty"`
	Prim  bool `json:"primary,omitempty"`
	Named bool `json:"named,omitempty"`
}

type c5LazyCase struct {
	Provs []c5Prov `json:"providers"`
	Opt   bool     `json:"optional_point,omitempty"`
	Func  bool     `json:"func_tag,omitempty"`
	Desc  bool     `json:"descending,omitempty"`
}

func c05Lazy(c *core.Ctx) {
	gen := func(yield func(c5LazyCase) bool) {
		var attrs []c5Prov
		for _, lazy := range []bool{false, true} {
			for _, prim := range []bool{false, true} {
				for _, named := range []bool{true, false} {
					attrs = append(attrs, c5Prov{lazy, prim, named})
				}
			}
		}
		seqs(3, len(attrs), func(s []int) bool {
			var ps []c5Prov
			dup := map[[2]bool]bool{}
			anyLazy := false
			for _, i := range s {
				a := attrs[i]
				if !a.Named {
					if dup[[2]bool{a.Lazy, a.Prim}] {
						return true // two default-named components of one type
					}
					dup[[2]bool{a.Lazy, a.Prim}] = true
				}
				anyLazy = anyLazy || a.Lazy
				ps = append(ps, a)
			}
			if !anyLazy {
				return true
			}
			for _, opt := range []bool{false, true} {
				for _, desc := range []bool{false, true} {
					for _, fn := range []bool{false, true} {
						if !yield(c5LazyCase{Provs: ps, Opt: opt, Desc: desc, Func: fn}) {
							return false
						}
					}
				}
			}
			return true
		})
	}
	Cases(c, gen, func(c *core.Ctx, cs c5LazyCase) {
		var comps []any
		var bases []*c5Base
		user := map[string]bool{}
		for i, p := range cs.Provs {
			b := c5Base{Id: fmt.Sprintf("x%d", i)}
			typ := map[[2]bool]string{{false, false}: "c5Eager", {false, true}: "c5EagerPrim", {true, false}: "c5Lazy", {true, true}: "c5LazyPrim"}[[2]bool{p.Lazy, p.Prim}]
			name := "verif/props/" + typ
			if p.Named {
				b.Name, name = b.Id, b.Id
			}
			user[name] = true
			switch typ {
			case "c5Eager":
				x := &c5Eager{b}
				comps, bases = append(comps, x), append(bases, &x.c5Base)
			case "c5EagerPrim":
				x := &c5EagerPrim{b}
				comps, bases = append(comps, x), append(bases, &x.c5Base)
			case "c5Lazy":
				x := &c5Lazy{b}
				comps, bases = append(comps, x), append(bases, &x.c5Base)
			default:
				x := &c5LazyPrim{b}
				comps, bases = append(comps, x), append(bases, &x.c5Base)
			}
		}
		var get func() c5I
		if cs.Func && cs.Opt {
			h := &c5HolderFnOpt{}
			comps, get = append(comps, h), func() c5I { return h.F }
		} else if cs.Func {
			h := &c5HolderFn{}
			comps, get = append(comps, h), func() c5I { return h.F }
		} else if cs.Opt {
			h := &c5HolderOpt{}
			comps, get = append(comps, h), func() c5I { return h.F }
		} else {
			h := &c5Holder{}
			comps, get = append(comps, h), func() c5I { return h.F }
		}
		var base []string
		for k := range user {
			base = append(base, k)
		}
		sort.Strings(base)
		if cs.Desc {
			sort.Sort(sort.Reverse(sort.StringSlice(base)))
		}
		o := scen.Start(scen.StartSpec{Ch: envx.Fixed("", nil), Comps: comps, User: user, Base: base})
		c.S.Evaluations++
		c.S.Programs++
		c.S.States++
		c.S.Nontrivial++
		c.S.Transitions += int64(o.Trace.Calls)
		key := "C05/lazy-candidates/" + core.Hash(cs)
		desc := fmt.Sprintf("single-valued by-type point with candidates %+v (optional %v, descending %v, func tag %v)", cs.Provs, cs.Opt, cs.Desc, cs.Func)
		if !o.OK() {
			c.Outcome("lazycand/start-failed")
			c.Report(key, "start-failed", fmt.Sprintf("%s: start-up did not succeed: %v %s%s", desc, scen.FirstLine(o.Err), o.Panic, o.Abort), cs)
			return
		}
		// ranking reference (C08): unique Primary, else unique default-named, else any
		var prims, unnamed, allowed []int
		for i, p := range cs.Provs {
			if p.Prim {
				prims = append(prims, i)
			}
			if !p.Named {
				unnamed = append(unnamed, i)
			}
			allowed = append(allowed, i)
		}
		if len(prims) == 1 {
			allowed = prims
		} else if len(prims) == 0 && len(unnamed) == 1 {
			allowed = unnamed
		}
		got := -1
		if f := get(); f != nil {
			fmt.Sscanf(f.Who(), "x%d", &got)
		}
		okPick := false
		for _, a := range allowed {
			okPick = okPick || a == got
		}
		if !okPick {
			c.Outcome("lazycand/wrong-pick")
			c.Report(key, "wrong-wiring", fmt.Sprintf("%s: the point holds x%d, admissible %v", desc, got, allowed), cs)
			return
		}
		for i, p := range cs.Provs {
			want := 1
			if p.Lazy && i != got {
				want = 0
			}
			if bases[i].Inits != want {
				c.Outcome("lazycand/lifecycle")
				c.Report(key, "lazy-lifecycle", fmt.Sprintf("%s: the point received x%d; candidate x%d (lazy=%v) was initialised %d times, want %d (a lazy component nobody needs is not created)", desc, got, i, p.Lazy, bases[i].Inits, want), cs)
				return
			}
		}
		c.Outcome(fmt.Sprintf("lazycand/ok/%d", len(cs.Provs)))
		if c.S.Programs%300 == 1 {
			c.Sample(map[string]any{"case": cs, "received": got})
		}
	})
}
