package props

import (
	"fmt"
	"runtime"

	"github.com/go-kid/ioc/util/vsync"

	"verif/internal/core"
	"verif/internal/scen"
)

// SELF is not a property: it checks the scheduler / shim / race-oracle machinery itself on small
// programs with known answers (./check SELF quick). A failure here is an engine error.
func init() {
	register(&Driver{
		ID:        "SELF",
		Technique: "self-test of the controlled scheduler, the channel model and the race-detector oracle on programs with known verdicts",
		Rule:      "nine micro programs x all interleavings (the last one bounded)",
		Parts:     []Part{{Name: "sched", Race: true, Workers: 1, Run: selfRun, QuickS: 120, ThoroughS: 120}},
	})
}

type selfCase struct {
	Name string `json:"name"`
}

// shared state of the micro programs; plain accesses are deliberately visible to tsan
var selfX int

func selfRun(c *core.Ctx) {
	type prog struct {
		name       string
		body       func() string
		wantRace   bool
		wantDead   bool
		wantOut    map[string]bool
		mustSeeAll bool // every listed outcome must occur on some schedule
		bound0     bool // explore without preemptions only (long-running program)
	}
	progs := []prog{
		{name: "unbuffered-handoff", wantOut: map[string]bool{"x=1": true}, body: func() string {
			ch := make(chan int)
			selfX = 0
			vsync.Go(func() {
				selfX = 1 // published by the send below
				vsync.ChanSendFn(ch, func() { ch <- 7 })
			})
			v := vsync.ChanRecv(ch)
			if v != 7 {
				return "bad value"
			}
			return fmt.Sprintf("x=%d", selfX)
		}},
		{name: "unsynchronised-write", wantRace: true, wantOut: map[string]bool{"x=0": true, "x=1": true}, mustSeeAll: true, body: func() string {
			selfX = 0
			var wg vsync.WaitGroup
			wg.Add(1)
			vsync.Go(func() {
				vsync.Point()
				selfX = 1
				wg.Done()
			})
			vsync.Point()
			r := fmt.Sprintf("x=%d", selfX) // races with the write above
			wg.Wait()
			return r
		}},
		{name: "mutex-protected", wantOut: map[string]bool{"x=2": true}, body: func() string {
			selfX = 0
			var mu vsync.Mutex
			var wg vsync.WaitGroup
			wg.Add(2)
			for i := 0; i < 2; i++ {
				vsync.Go(func() {
					mu.Lock()
					selfX++
					mu.Unlock()
					wg.Done()
				})
			}
			wg.Wait()
			return fmt.Sprintf("x=%d", selfX)
		}},
		{name: "lost-update", wantOut: map[string]bool{"x=1": true, "x=2": true}, mustSeeAll: true, body: func() string {
			var m vsync.Map
			m.Store("k", 0)
			var wg vsync.WaitGroup
			wg.Add(2)
			for i := 0; i < 2; i++ {
				vsync.Go(func() {
					v, _ := m.Load("k")
					m.Store("k", v.(int)+1) // check-then-act: the interleaving must expose x=1
					wg.Done()
				})
			}
			wg.Wait()
			v, _ := m.Load("k")
			return fmt.Sprintf("x=%d", v.(int))
		}},
		{name: "receive-without-sender", wantDead: true, wantOut: map[string]bool{}, body: func() string {
			ch := make(chan int)
			vsync.ChanRecv(ch)
			return "unreachable"
		}},
		// both senders' goroutines outlive this execution (one parked on the full channel): the
		// programs after it must be unaffected by them
		{name: "second-send-on-full-channel", wantDead: true, wantOut: map[string]bool{}, body: func() string {
			ch := make(chan int, 1)
			var wg vsync.WaitGroup
			wg.Add(2)
			for i := 0; i < 2; i++ {
				vsync.Go(func() {
					defer wg.Done()
					vsync.ChanSendFn(ch, func() { ch <- 1 })
				})
			}
			wg.Wait()
			return "unreachable"
		}},
		// a collector ranging over an unbuffered channel that is closed after zero or one send, the
		// closer not waiting for the collector before it reads what was collected
		{name: "collector-closed-unbuffered", wantRace: true, wantOut: map[string]bool{"n=0": true, "n=1": true}, mustSeeAll: true, body: func() string {
			ch := make(chan int)
			n := 0
			vsync.Go(func() {
				for {
					_, ok := vsync.ChanRecv2(ch)
					if !ok {
						return
					}
					n++ // races with the read below: the closer does not wait for the collector
				}
			})
			var wg vsync.WaitGroup
			wg.Add(2)
			for i := 0; i < 2; i++ {
				i := i
				vsync.Go(func() {
					defer wg.Done()
					if i == 1 {
						vsync.ChanSendFn(ch, func() { ch <- 1 })
					}
				})
			}
			wg.Wait()
			vsync.ChanClose(ch)
			return fmt.Sprintf("n=%d", n)
		}},
		// many short-lived channels, each closed and dropped before the next is made (the allocator
		// reuses their addresses): a fresh channel must never be taken for a closed one
		{name: "fresh-channels-after-closed-ones", bound0: true, wantOut: map[string]bool{"sum=40": true}, body: func() string {
			sum := 0
			for i := 0; i < 40; i++ {
				ch := make(chan int)
				var wg vsync.WaitGroup
				wg.Add(1)
				vsync.Go(func() {
					defer wg.Done()
					for {
						v, ok := vsync.ChanRecv2(ch)
						if !ok {
							return
						}
						sum += v
					}
				})
				vsync.ChanSendFn(ch, func() { ch <- 1 })
				vsync.ChanClose(ch)
				wg.Wait()
				if i%8 == 7 {
					runtime.GC()
				}
			}
			return fmt.Sprintf("sum=%d", sum)
		}},
		{name: "semaphore-and-close", wantOut: map[string]bool{"x=3 drained=3": true}, body: func() string {
			selfX = 0
			sem := make(chan struct{}, 1)
			out := make(chan int, 3)
			var wg vsync.WaitGroup
			wg.Add(3)
			for i := 0; i < 3; i++ {
				i := i
				vsync.Go(func() {
					vsync.ChanSendFn(sem, func() { sem <- struct{}{} })
					selfX++ // protected by the semaphore
					vsync.ChanRecv(sem)
					vsync.ChanSendFn(out, func() { out <- i })
					wg.Done()
				})
			}
			wg.Wait()
			vsync.ChanClose(out)
			n := 0
			for {
				_, ok := vsync.ChanRecv2(out)
				if !ok {
					break
				}
				n++
			}
			return fmt.Sprintf("x=%d drained=%d", selfX, n)
		}},
	}
	gen := func(yield func(selfCase) bool) {
		for _, p := range progs {
			if !yield(selfCase{p.name}) {
				return
			}
		}
	}
	Cases(c, gen, func(c *core.Ctx, cs selfCase) {
		var p prog
		for _, q := range progs {
			if q.name == cs.Name {
				p = q
			}
		}
		outs := map[string]int{}
		out := ""
		races, deads := 0, 0
		var first []int
		bound := 3
		if p.bound0 {
			bound = 0
		}
		st := scen.ExploreSched(bound, 200000, c.Expired, func() { out = ""; out = p.body() }, func(e *scen.SchedExec) {
			c.S.Evaluations++
			c.S.States++
			if e.Raced {
				races++
			}
			if e.Deadlock {
				deads++
				return
			}
			outs[out]++
			if first == nil {
				first = e.Script
			}
		})
		c.S.Programs++
		c.S.Nontrivial++
		c.S.Transitions += st.Points
		fail := func(msg string) {
			c.S.EngineError = fmt.Sprintf("self-test %s: %s (schedules=%d outcomes=%v races=%d deadlocks=%d)", p.name, msg, st.Execs, outs, races, deads)
		}
		for o := range outs {
			if !p.wantOut[o] {
				fail("unexpected outcome " + o)
			}
		}
		if p.mustSeeAll {
			for o := range p.wantOut {
				if outs[o] == 0 {
					fail("outcome " + o + " was never produced: the exploration is not exhaustive")
				}
			}
		}
		if (races > 0) != p.wantRace {
			fail(fmt.Sprintf("race oracle: reported=%v, expected=%v", races > 0, p.wantRace))
		}
		if (deads > 0) != p.wantDead {
			fail(fmt.Sprintf("deadlock oracle: reported=%v, expected=%v", deads > 0, p.wantDead))
		}
		// determinism: the same schedule twice gives the same observation
		if !p.wantDead && first != nil {
			scen.ReplaySched(first, func() { out = p.body() })
			a := out
			scen.ReplaySched(first, func() { out = p.body() })
			if a != out {
				fail("replaying one schedule twice gave " + a + " and " + out)
			}
			c.S.DeterminismOK = true
		}
		c.Outcome(fmt.Sprintf("%s: schedules=%d outcomes=%d races=%d deadlocks=%d", p.name, st.Execs, len(outs), races, deads))
		c.Sample(map[string]any{"program": p.name, "schedules": st.Execs, "outcomes": outs, "schedules_with_race_report": races, "deadlocks": deads})
	})
}
