package props

import (
	"fmt"
	"reflect"
	"sort"
	"strings"
	"unsafe"

	"github.com/go-kid/ioc/app"
	cd "github.com/go-kid/ioc/component_definition"
	"github.com/go-kid/ioc/configure/loader"
	"github.com/go-kid/ioc/container/processors"
	"github.com/go-kid/ioc/definition"
	"github.com/go-kid/ioc/syslog"

	"verif/internal/core"
	"verif/internal/envx"
	"verif/internal/scen"
)

func init() {
	register(&Driver{
		ID:        "C11",
		Technique: "exhaustive enumeration of struct shapes: every list of <=3 (thorough <=4) fields over 12 field kinds (+7 look-alike foreign tags for lists of <= 2) x every placement of each field into anonymous untagged by-value embedded structs of depth <=3 (reflect.StructOf), plus hand-written shapes with unexported embedded struct types and non-recursing decoys; one real start per shape; metamorphic oracle against the flat struct, recording tag processor, bit-exact frame condition",
		Rule:      "field kinds = {wire by type, wire by name, func, value literal, value placeholder, prop, prefix, logger, custom tag with arguments, untagged, unexported+tagged, foreign-tagged}; placements = {top, E1, E1.E2, E1.E2.E3, E4} per field; static shapes = unexported embedded type at depth 1, below an exported embed, above an exported embed; decoys = tagged anonymous struct, anonymous pointer-to-struct, named struct field; non-trivial = at least one field placed inside an embedded struct. Families added in later rounds (look-ups inside Init, retries after an abandoned attempt, user extension points at every Order, several containers, odd names / types / values) are listed per part in this file and described in MANIFEST.json (level_claimed.text) and DESIGN §7",
		Assumptions: []string{
			"reflect.StructOf cannot build unexported embedded fields; those shapes are hand-written Go types",
			"the custom-tag processor's view is compared as a set (scan order follows the embedding)",
		},
		Parts: []Part{
			{Name: "shapes", Run: c11Shapes, QuickS: 180, ThoroughS: 900},
			{Name: "static-shapes", Run: c11Static, Workers: 1, QuickS: 90, ThoroughS: 120},
		},
	})
}

type c11Prov struct{ n string }

func (p *c11Prov) ID() string     { return p.n }
func (p *c11Prov) Naming() string { return p.n }
func (p *c11Prov) Comp()          {}

type c11Kind struct {
	name   string
	typ    reflect.Type
	tag    string
	unexp  bool
	tagged bool // the container must write it
}

var (
	c11TIface  = reflect.TypeOf((*scen.Iface)(nil)).Elem()
	c11TStr    = reflect.TypeOf("")
	c11TLogger = reflect.TypeOf((*syslog.Logger)(nil)).Elem()
)

var c11Kinds = []c11Kind{
	{"wire", c11TIface, `wire:""`, false, true},
	{"wirename", c11TIface, `wire:"prov"`, false, true},
	{"func", c11TIface, `func:"Comp"`, false, true},
	{"vlit", c11TStr, `value:"lit"`, false, true},
	{"vph", c11TStr, `value:"${k}"`, false, true},
	{"prop", c11TStr, `prop:"k"`, false, true},
	{"prefix", c11TStr, `prefix:"k"`, false, true},
	{"logger", c11TLogger, `logger:""`, false, true},
	{"custom", c11TStr, `mytag:"v,arg=a b"`, false, false},
	{"untagged", c11TStr, ``, false, false},
	{"unexp", c11TStr, `value:"lit"`, true, false},
	{"foreign", c11TStr, `json:"x"`, false, false},
}

// foreign tag keys that merely end in (or start with) a recognised key: still unrecognised
var c11Lookalikes = []c11Kind{
	{"defaultvalue", c11TStr, `defaultvalue:"lit"`, false, false},
	{"hardwire", c11TIface, `hardwire:"prov"`, false, false},
	{"envprop", c11TStr, `envprop:"k"`, false, false},
	{"myprefix", c11TStr, `myprefix:"k"`, false, false},
	{"notmytag", c11TStr, `notmytag:"v,arg=a b"`, false, false},
	{"values", c11TStr, `values:"lit"`, false, false},
	{"wired", c11TIface, `wired:"prov"`, false, false},
	// recognised tags whose whole value looks like a marker of some other convention: values like any other
	{"vdash", c11TStr, `value:"-"`, false, true},
	{"customdash", c11TStr, `mytag:"-"`, false, false},
	{"vomit", c11TStr, `value:"omitempty"`, false, true},
	{"custominline", c11TStr, `mytag:"inline"`, false, false},
}

// c11Rec records what a user-supplied tag processor receives for `mytag`.
type c11Rec struct {
	processors.DefaultInstantiationAwareComponentPostProcessor
	seen []string
}

func (r *c11Rec) Order() int { return 1000 }
func (r *c11Rec) PostProcessAfterInstantiation(c any, n string) (bool, error) {
	return true, nil
}
func (r *c11Rec) PostProcessProperties(ps []*cd.Property, c any, n string) ([]*cd.Property, error) {
	for _, p := range ps {
		if p.Tag == "mytag" {
			r.seen = append(r.seen, fmt.Sprintf("%s=%s%v", p.StructField.Name, p.TagVal, p.Args()))
		}
	}
	return nil, nil
}

type c11Scan struct {
	processors.DefaultTagScanDefinitionRegistryPostProcessor
}

type c11Case struct {
	Kinds []int `json:"field_kinds"`
	Place []int `json:"placement"` // per field: 0 top, 1 E1, 2 E1.E2, 3 E1.E2.E3, 4 E4
}

func c11Build(fs []c11Kind, place []int) reflect.Type {
	mk := func(i int) reflect.StructField {
		f := fs[i]
		sf := reflect.StructField{Name: fmt.Sprintf("F%d", i), Type: f.typ, Tag: reflect.StructTag(f.tag)}
		if f.unexp {
			sf.Name = fmt.Sprintf("f%d", i)
			sf.PkgPath = "verif/props"
		}
		return sf
	}
	at := func(p int) []reflect.StructField {
		var out []reflect.StructField
		for i := range fs {
			if place[i] == p {
				out = append(out, mk(i))
			}
		}
		return out
	}
	var e3, e2, e1 reflect.Type
	if f3 := at(3); len(f3) > 0 {
		e3 = reflect.StructOf(f3)
	}
	f2 := at(2)
	if e3 != nil {
		f2 = append([]reflect.StructField{{Name: "E3", Type: e3, Anonymous: true}}, f2...)
	}
	if len(f2) > 0 {
		e2 = reflect.StructOf(f2)
	}
	f1 := at(1)
	if e2 != nil {
		f1 = append([]reflect.StructField{{Name: "E2", Type: e2, Anonymous: true}}, f1...)
	}
	if len(f1) > 0 {
		e1 = reflect.StructOf(f1)
	}
	top := at(0)
	if e1 != nil {
		top = append([]reflect.StructField{{Name: "E1", Type: e1, Anonymous: true}}, top...)
	}
	if f4 := at(4); len(f4) > 0 {
		top = append(top, reflect.StructField{Name: "E4", Type: reflect.StructOf(f4), Anonymous: true})
	}
	top = append(top, reflect.StructField{Name: "Pad", Type: reflect.TypeOf(0)})
	return reflect.StructOf(top)
}

func c11Field(v reflect.Value, name string) reflect.Value {
	t := v.Type()
	for i := 0; i < t.NumField(); i++ {
		sf := t.Field(i)
		if sf.Name == name {
			return v.Field(i)
		}
		if sf.Anonymous && sf.Type.Kind() == reflect.Struct {
			if r := c11Field(v.Field(i), name); r.IsValid() {
				return r
			}
		}
	}
	return reflect.Value{}
}

func c11Read(v reflect.Value) any {
	if v.CanInterface() {
		return v.Interface()
	}
	return reflect.NewAt(v.Type(), unsafe.Pointer(v.UnsafeAddr())).Elem().Interface()
}

func c11WriteStr(v reflect.Value, s string) {
	reflect.NewAt(v.Type(), unsafe.Pointer(v.UnsafeAddr())).Elem().SetString(s)
}

type c11Result struct {
	vals map[string]string
	seen []string
	err  error
	pan  string
}

func c11Name(fs []c11Kind, i int) string {
	if fs[i].unexp {
		return fmt.Sprintf("f%d", i)
	}
	return fmt.Sprintf("F%d", i)
}

func c11RunOne(fs []c11Kind, place []int) c11Result {
	h := reflect.New(c11Build(fs, place))
	for i, f := range fs {
		if !f.tagged && f.typ == c11TStr {
			c11WriteStr(c11Field(h.Elem(), c11Name(fs, i)), "SENTINEL")
		}
	}
	h.Elem().FieldByName("Pad").SetInt(4242)
	prov := &c11Prov{"prov"}
	rec := &c11Rec{}
	sc := &c11Scan{}
	sc.Tag = "mytag"
	sc.NodeType = "custom"
	o := scen.Start(scen.StartSpec{Ch: envx.Fixed("", nil), Comps: []any{h.Interface(), prov, rec, sc},
		Opts: []app.SettingOption{app.SetConfigLoader(loader.NewRawLoader([]byte("k: cfg\n")))}})
	res := c11Result{vals: map[string]string{}, seen: rec.seen, err: o.Err, pan: o.Panic + o.Abort}
	for i, f := range fs {
		v := c11Read(c11Field(h.Elem(), c11Name(fs, i)))
		switch {
		case f.typ == c11TIface:
			res.vals[c11Name(fs, i)] = fmt.Sprintf("same-as-provider=%v", v == any(prov))
		case f.typ == c11TLogger:
			res.vals[c11Name(fs, i)] = fmt.Sprintf("logger-set=%v", v != nil)
		default:
			res.vals[c11Name(fs, i)] = fmt.Sprint(v)
		}
	}
	res.vals["Pad"] = fmt.Sprint(h.Elem().FieldByName("Pad").Int())
	sort.Strings(res.seen)
	return res
}

func c11Shapes(c *core.Ctx) {
	maxLen := 3
	places := 5
	if c.Thorough() {
		maxLen = 4
	}
	gen := func(yield func(c11Case) bool) {
		for L := 1; L <= maxLen; L++ {
			idx := make([]int, L)
			for {
				place := make([]int, L)
				for {
					if L == 4 {
						// length 4: placements restricted to {top, E1, E1.E2.E3}
						skip := false
						for _, p := range place {
							skip = skip || p == 2 || p == 4
						}
						if skip {
							goto next
						}
					}
					if !yield(c11Case{append([]int{}, idx...), append([]int{}, place...)}) {
						return
					}
				next:
					k := 0
					for k < L {
						place[k]++
						if place[k] < places {
							break
						}
						place[k] = 0
						k++
					}
					if k == L {
						break
					}
				}
				nk := len(c11Kinds)
				if L <= 2 {
					nk += len(c11Lookalikes) // look-alike foreign tags: lists of <= 2 fields
				}
				k := 0
				for k < L {
					idx[k]++
					if idx[k] < nk {
						break
					}
					idx[k] = 0
					k++
				}
				if k == L {
					break
				}
			}
		}
	}
	flats := map[string]c11Result{}
	Cases(c, gen, func(c *core.Ctx, cs c11Case) {
		fs := make([]c11Kind, len(cs.Kinds))
		var names []string
		for i, k := range cs.Kinds {
			if k < len(c11Kinds) {
				fs[i] = c11Kinds[k]
			} else {
				fs[i] = c11Lookalikes[k-len(c11Kinds)]
			}
			names = append(names, fs[i].name)
		}
		fk := fmt.Sprint(cs.Kinds)
		flat, ok := flats[fk]
		if !ok {
			flat = c11RunOne(fs, make([]int, len(fs)))
			flats[fk] = flat
			c.S.Evaluations++
		}
		got := c11RunOne(fs, cs.Place)
		c.S.Evaluations++
		c.S.Programs++
		c.S.States++
		c.S.Transitions += int64(len(fs))
		embedded := false
		for _, p := range cs.Place {
			embedded = embedded || p != 0
		}
		if embedded {
			c.S.Nontrivial++
		}
		key := "C11/shape/" + core.Hash(cs)
		desc := fmt.Sprintf("fields %v placed at %v (0 top, 1 E1, 2 E1.E2, 3 E1.E2.E3, 4 E4)", names, cs.Place)
		if got.pan != "" || flat.pan != "" {
			c.Outcome("panic")
			c.Report(key, "panic", desc+": "+got.pan+flat.pan, cs)
			return
		}
		if (got.err == nil) != (flat.err == nil) {
			c.Outcome("outcome-differs")
			c.Report(key, "embedding-changes-outcome", fmt.Sprintf("%s: start-up error=%v, with the same fields declared directly error=%v", desc, scen.FirstLine(got.err), scen.FirstLine(flat.err)), cs)
			return
		}
		for i, f := range fs {
			n := c11Name(fs, i)
			if got.vals[n] != flat.vals[n] {
				c.Outcome("value-differs")
				c.Report(key, "embedding-changes-value", fmt.Sprintf("%s: field %s (%s) holds %q, declared directly it holds %q", desc, n, f.name, got.vals[n], flat.vals[n]), cs)
				return
			}
			if !f.tagged && f.typ == c11TIface && got.vals[n] != "same-as-provider=false" {
				c.Outcome("frame-violated")
				c.Report(key, "frame", fmt.Sprintf("%s: %s field %s (unrecognised tag) was injected", desc, f.name, n), cs)
				return
			}
			if !f.tagged && f.typ == c11TStr && got.vals[n] != "SENTINEL" {
				c.Outcome("frame-violated")
				c.Report(key, "frame", fmt.Sprintf("%s: %s field %s was modified: %q", desc, f.name, n, got.vals[n]), cs)
				return
			}
			if f.tagged && got.err == nil {
				want := map[string]string{"wire": "same-as-provider=true", "wirename": "same-as-provider=true", "func": "same-as-provider=true", "vlit": "lit", "vph": "cfg", "prop": "cfg", "prefix": "cfg", "logger": "logger-set=true", "vdash": "-", "vomit": "omitempty"}[f.name]
				if got.vals[n] != want {
					c.Outcome("not-processed")
					c.Report(key, "not-processed", fmt.Sprintf("%s: tagged field %s (%s) holds %q, want %q", desc, n, f.name, got.vals[n], want), cs)
					return
				}
			}
		}
		if got.vals["Pad"] != "4242" {
			c.Outcome("frame-violated")
			c.Report(key, "frame", desc+": untagged field Pad was modified", cs)
			return
		}
		// the user-supplied tag processor receives exactly the mytag fields, value and arguments
		var want []string
		for i, f := range fs {
			switch f.name {
			case "custom":
				want = append(want, fmt.Sprintf("F%d=v.Arg(a,b)", i))
			case "customdash":
				want = append(want, fmt.Sprintf("F%d=-", i))
			case "custominline":
				want = append(want, fmt.Sprintf("F%d=inline", i))
			}
		}
		sort.Strings(want)
		if got.err == nil && strings.Join(got.seen, ";") != strings.Join(want, ";") {
			c.Outcome("custom-tag-differs")
			c.Report(key, "custom-tag", fmt.Sprintf("%s: the custom tag processor received %v, want %v", desc, got.seen, want), cs)
			return
		}
		if got.err != nil {
			c.Outcome("both-fail")
		} else {
			c.Outcome("same-as-flat")
		}
		if c.S.Programs%400 == 1 {
			c.Sample(map[string]any{"fields": names, "placement": cs.Place, "values": got.vals, "custom_tag_seen": got.seen})
		}
	})
}

// ---- hand-written shapes: unexported embedded struct types and non-recursing decoys

type c11inner struct {
	W  scen.Iface    `wire:""`
	WN scen.Iface    `wire:"prov"`
	Fn scen.Iface    `func:"Comp"`
	V  string        `value:"lit"`
	VP string        `value:"${k}"`
	P  string        `prop:"k"`
	PX string        `prefix:"k"`
	L  syslog.Logger `logger:""`
	C  string        `mytag:"v,arg=a b"`
	U  string
	u  string `value:"lit"`
	J  string `json:"x"`
}

type C11Mid struct{ c11inner }    // exported embed -> unexported embed
type c11low struct{ C11Inner2 }   // unexported embed -> exported embed
type C11Inner2 struct{ c11inner } // (and one more unexported level below)

type c11HolderFlat struct {
	W  scen.Iface    `wire:""`
	WN scen.Iface    `wire:"prov"`
	Fn scen.Iface    `func:"Comp"`
	V  string        `value:"lit"`
	VP string        `value:"${k}"`
	P  string        `prop:"k"`
	PX string        `prefix:"k"`
	L  syslog.Logger `logger:""`
	C  string        `mytag:"v,arg=a b"`
	U  string
	u  string `value:"lit"`
	J  string `json:"x"`
}
type c11HolderA struct {
	c11inner
	Pad int
}
type c11HolderB struct{ C11Mid }
type c11HolderC struct{ c11low }

// the same mixin type embedded twice in one component: through two different parents (diamond) and
// at two depths
type C11Audit struct {
	V  string     `value:"lit"`
	W  scen.Iface `wire:"prov"`
	C  string     `mytag:"v,arg=a b"`
	U2 string
}
type C11Left struct{ C11Audit }
type C11Right struct{ C11Audit }
type c11HolderDiamond struct {
	C11Left
	C11Right
}
type C11InnerAudit struct{ C11Audit }
type c11HolderTwoDepths struct {
	C11Audit
	C11InnerAudit
}

type c11DecoyInner struct {
	X string `value:"lit"`
}
type c11HolderDecoys struct {
	c11DecoyInner `json:"tagged-anonymous"` // tagged anonymous struct: not an embedded holder
	*C11PtrDecoy                            // anonymous pointer to struct: not by-value
	Named         c11DecoyInner             // named struct field: not anonymous
	OK            string                    `value:"lit"`
}
type C11PtrDecoy struct {
	Y string `value:"lit"`
}

// tagged embedded fields (the field is anonymous AND carries a recognised tag: it is an injection
// point / configuration point itself, not a mixin to descend into)
type C11Svc struct{ X int }
type C11Settings struct {
	A string `yaml:"a"`
}
type C11Label string

type c11HolderTaggedEmbeds struct {
	*C11Svc     `wire:""`
	scen.Iface  `wire:"prov"`
	C11Settings `prefix:"sect"`
	C11Label    `mytag:"m1,k=v"`
}
type c11HolderTaggedNamed struct {
	Svc *C11Svc     `wire:""`
	G   scen.Iface  `wire:"prov"`
	S   C11Settings `prefix:"sect"`
	L   C11Label    `mytag:"m1,k=v"`
}

// a mixin that embeds a configuration-properties struct (whose Prefix() is promoted into the
// mixin's own method set) next to ordinary tagged fields
type C11Props struct {
	A string `yaml:"a"`
}

func (*C11Props) Prefix() string { return "sect" }

type C11BaseRepo struct {
	*C11Props
	W scen.Iface `wire:"prov"`
	V string     `value:"lit"`
	M string     `mytag:"m1,k=v"`
	U string
}
type c11HolderPropsMixin struct {
	C11BaseRepo
}
type c11HolderPropsFlat struct {
	P *C11Props
	W scen.Iface `wire:"prov"`
	V string     `value:"lit"`
	M string     `mytag:"m1,k=v"`
	U string
}

// c11Early is a user instantiation-aware processor that runs before every built-in one and takes no
// part in the component's fields: it declines the component, or answers an empty / a partial list
// from its properties callback. What it answers concerns its own work only.
type c11Early struct {
	processors.DefaultInstantiationAwareComponentPostProcessor
	mode string
}

func (*c11Early) Naming() string { return "0-early" }
func (*c11Early) Priority()      {}
func (*c11Early) Order() int     { return -1 << 62 }
func (p *c11Early) PostProcessAfterInstantiation(c any, name string) (bool, error) {
	return p.mode != "declines", nil
}
func (p *c11Early) PostProcessProperties(ps []*cd.Property, c any, name string) ([]*cd.Property, error) {
	switch p.mode {
	case "answers-empty-list":
		return []*cd.Property{}, nil
	case "answers-subset":
		if len(ps) > 1 {
			return ps[:1], nil
		}
	}
	return nil, nil
}

// a mixin whose tagged fields have the names of fields the embedding component declares itself
// (Go's selectors reach only the outer ones; the container processes fields, not selectors)
type C11ShadowMix struct {
	W scen.Iface `wire:"prov"`
	V string     `value:"${k}"`
	C string     `mytag:"v,arg=a b"`
	U string
}
type C11ShadowMid struct{ C11ShadowMix }
type c11HolderShadow struct {
	C11ShadowMid
	W scen.Iface `wire:""`
	V string     `value:"lit"`
	C string     `mytag:"outer"`
	U string
}

// the embedding component itself satisfies the interface its mixin's points ask for (the container
// never injects a component into itself: the direct and the embedded shape must agree on who is left)
type C11SelfMix struct {
	W  scen.Iface   `wire:""`
	WO scen.Iface   `wire:",required=false"`
	WS []scen.Iface `wire:""`
}
type C11SelfMid struct{ C11SelfMix }
type c11SelfFlat struct {
	W  scen.Iface   `wire:""`
	WO scen.Iface   `wire:",required=false"`
	WS []scen.Iface `wire:""`
}
type c11SelfEmb struct{ C11SelfMix }
type c11SelfEmb2 struct{ C11SelfMid }

// the mixin is not the struct's first field (its address differs from the component's)
type c11SelfEmbPad struct {
	Pad int
	C11SelfMix
}
type c11SelfEmbPadP struct {
	definition.WirePrimaryComponent
	Pad int
	C11SelfMix
}

func (*c11SelfEmbPad) ID() string  { return "holder" }
func (*c11SelfEmbPadP) ID() string { return "holder" }

type c11SelfFlatP struct {
	definition.WirePrimaryComponent
	W  scen.Iface   `wire:""`
	WO scen.Iface   `wire:",required=false"`
	WS []scen.Iface `wire:""`
}
type c11SelfEmbP struct {
	definition.WirePrimaryComponent
	C11SelfMix
}
type c11SelfEmb2P struct {
	definition.WirePrimaryComponent
	C11SelfMid
}

func (*c11SelfFlat) ID() string  { return "holder" }
func (*c11SelfEmb) ID() string   { return "holder" }
func (*c11SelfEmb2) ID() string  { return "holder" }
func (*c11SelfFlatP) ID() string { return "holder" }
func (*c11SelfEmbP) ID() string  { return "holder" }
func (*c11SelfEmb2P) ID() string { return "holder" }

type c11Peer struct{}

func (*c11Peer) ID() string { return "peer" }

func c11SelfView(h any) string {
	var w, wo scen.Iface
	var ws []scen.Iface
	switch x := h.(type) {
	case *c11SelfFlat:
		w, wo, ws = x.W, x.WO, x.WS
	case *c11SelfEmb:
		w, wo, ws = x.W, x.WO, x.WS
	case *c11SelfEmb2:
		w, wo, ws = x.W, x.WO, x.WS
	case *c11SelfFlatP:
		w, wo, ws = x.W, x.WO, x.WS
	case *c11SelfEmbP:
		w, wo, ws = x.W, x.WO, x.WS
	case *c11SelfEmb2P:
		w, wo, ws = x.W, x.WO, x.WS
	case *c11SelfEmbPad:
		w, wo, ws = x.W, x.WO, x.WS
	case *c11SelfEmbPadP:
		w, wo, ws = x.W, x.WO, x.WS
	}
	id := func(v scen.Iface) string {
		if v == nil {
			return "<nil>"
		}
		return v.ID()
	}
	var ids []string
	for _, v := range ws {
		ids = append(ids, id(v))
	}
	sort.Strings(ids)
	return fmt.Sprintf("W=%s WO=%s WS=%v", id(w), id(wo), ids)
}

func c11Static(c *core.Ctx) {
	type sc struct {
		Shape string `json:"shape"`
	}
	gen := func(yield func(sc) bool) {
		for _, s := range []string{"unexported-embed", "exported>unexported", "unexported>exported>unexported", "decoys", "diamond", "two-depths", "tagged-embedded", "mixin-with-properties",
			"shadowed-names", "early-processor/declines", "early-processor/answers-empty-list", "early-processor/answers-subset", "holder-is-candidate/1", "holder-is-candidate/2", "holder-is-candidate/primary/1", "holder-is-candidate/primary/2", "holder-is-candidate/unnamed-peer"} {
			if !yield(sc{s}) {
				return
			}
		}
	}
	run := func(h any) (c11Rec, *scen.StartObs, *c11Prov) {
		prov := &c11Prov{"prov"}
		rec := &c11Rec{}
		s := &c11Scan{}
		s.Tag = "mytag"
		s.NodeType = "custom"
		o := scen.Start(scen.StartSpec{Ch: envx.Fixed("", nil), Comps: []any{h, prov, rec, s},
			Opts: []app.SettingOption{app.SetConfigLoader(loader.NewRawLoader([]byte("k: cfg\n")))}})
		return *rec, o, prov
	}
	view := func(in *c11inner, prov *c11Prov) string {
		return fmt.Sprintf("W=%v WN=%v Fn=%v V=%q VP=%q P=%q PX=%q L=%v C=%q U=%q u=%q J=%q", in.W == scen.Iface(prov), in.WN == scen.Iface(prov), in.Fn == scen.Iface(prov), in.V, in.VP, in.P, in.PX, in.L != nil, in.C, in.U, in.u, in.J)
	}
	Cases(c, gen, func(c *core.Ctx, s sc) {
		c.S.Evaluations++
		c.S.Programs++
		c.S.States++
		c.S.Transitions++
		c.S.Nontrivial++
		key := "C11/static/" + s.Shape
		sent := c11inner{C: "SENTINEL", U: "SENTINEL", u: "SENTINEL", J: "SENTINEL"}
		// reference: the same fields declared directly on the component
		flat := &c11HolderFlat{C: "SENTINEL", U: "SENTINEL", u: "SENTINEL", J: "SENTINEL"}
		frec, fo, fprov := run(flat)
		fin := c11inner{flat.W, flat.WN, flat.Fn, flat.V, flat.VP, flat.P, flat.PX, flat.L, flat.C, flat.U, flat.u, flat.J}
		want := view(&fin, fprov)
		if !fo.OK() {
			c.Report(key, "flat-failed", "the flat reference shape did not start: "+scen.FirstLine(fo.Err)+fo.Panic, s)
			return
		}
		if strings.HasPrefix(s.Shape, "early-processor/") {
			for depth, mk := range []func() (any, *c11inner){
				func() (any, *c11inner) {
					x := &c11HolderA{c11inner: sent, Pad: 7}
					return x, &x.c11inner
				},
				func() (any, *c11inner) {
					x := &c11HolderC{c11low{C11Inner2{sent}}}
					return x, &x.c11inner
				},
			} {
				h, in := mk()
				prov := &c11Prov{"prov"}
				rec := &c11Rec{}
				sc := &c11Scan{}
				sc.Tag, sc.NodeType = "mytag", "custom"
				o := scen.Start(scen.StartSpec{Ch: envx.Fixed("", nil), Comps: []any{h, prov, rec, sc, &c11Early{mode: strings.TrimPrefix(s.Shape, "early-processor/")}},
					Opts: []app.SettingOption{app.SetConfigLoader(loader.NewRawLoader([]byte("k: cfg\n")))}})
				got := view(in, prov)
				sort.Strings(rec.seen)
				sort.Strings(frec.seen)
				switch {
				case !o.OK():
					c.Outcome(s.Shape + "/failed")
					c.Report(key, "embedding-changes-outcome", fmt.Sprintf("shape %s (mixin depth %d): start-up failed (%s%s) although the component starts without that processor", s.Shape, depth+1, scen.FirstLine(o.Err), o.Panic), s)
					return
				case got != want:
					c.Outcome(s.Shape + "/differs")
					c.Report(key, "not-processed", fmt.Sprintf("shape %s (mixin depth %d): next to a user processor that %s the fields end as [%s], without it as [%s]", s.Shape, depth+1, strings.TrimPrefix(s.Shape, "early-processor/"), got, want), s)
					return
				case fmt.Sprint(rec.seen) != fmt.Sprint(frec.seen):
					c.Outcome(s.Shape + "/custom-tag")
					c.Report(key, "custom-tag", fmt.Sprintf("shape %s: the custom tag processor received %v, without the early processor %v", s.Shape, rec.seen, frec.seen), s)
					return
				}
			}
			c.Outcome(s.Shape + "/as-without-it")
			c.Sample(map[string]any{"shape": s.Shape})
			return
		}
		if s.Shape == "shadowed-names" {
			x := &c11HolderShadow{U: "SENTINEL"}
			x.C11ShadowMix.U, x.C11ShadowMix.C, x.C = "SENTINEL", "SENTINEL", "SENTINEL"
			rec, o, prov := run(x)
			sort.Strings(rec.seen)
			in := &x.C11ShadowMix
			got := fmt.Sprintf("inner W=%v V=%q C=%q U=%q | outer W=%v V=%q C=%q U=%q | custom=%v", in.W == scen.Iface(prov), in.V, in.C, in.U, x.W == scen.Iface(prov), x.V, x.C, x.U, rec.seen)
			want := `inner W=true V="cfg" C="SENTINEL" U="SENTINEL" | outer W=true V="lit" C="SENTINEL" U="SENTINEL" | custom=[C=outer C=v.Arg(a,b)]`
			switch {
			case !o.OK():
				c.Outcome(s.Shape + "/failed")
				c.Report(key, "embedding-changes-outcome", fmt.Sprintf("shape %s: start-up failed: %s%s", s.Shape, scen.FirstLine(o.Err), o.Panic), s)
			case got != want:
				c.Outcome(s.Shape + "/differs")
				c.Report(key, "embedding-changes-value", fmt.Sprintf("shape %s (a mixin's tagged fields carry the names of fields of the embedding struct): [%s], want [%s]", s.Shape, got, want), s)
			default:
				c.Outcome(s.Shape + "/both-processed")
			}
			c.Sample(map[string]any{"shape": s.Shape, "fields": got})
			return
		}
		if strings.HasPrefix(s.Shape, "holder-is-candidate") {
			primary := strings.Contains(s.Shape, "primary")
			start := func(h any) (string, *scen.StartObs) {
				comps := []any{h}
				switch {
				case strings.HasSuffix(s.Shape, "/1"):
					comps = append(comps, &c11Prov{"prov"})
				case strings.HasSuffix(s.Shape, "/2"):
					comps = append(comps, &c11Prov{"prov"}, &c11Prov{"prov2"})
				default:
					comps = append(comps, &c11Peer{})
				}
				o := scen.Start(scen.StartSpec{Ch: envx.Fixed("", nil), Comps: comps})
				if !o.OK() {
					return "failed: " + scen.FirstLine(o.Err) + o.Panic, o
				}
				return c11SelfView(h), o
			}
			var flat any = &c11SelfFlat{}
			embs := []any{&c11SelfEmb{}, &c11SelfEmb2{}, &c11SelfEmbPad{}}
			if primary {
				flat, embs = &c11SelfFlatP{}, []any{&c11SelfEmbP{}, &c11SelfEmb2P{}, &c11SelfEmbPadP{}}
			}
			want, wo := start(flat)
			for depth, e := range embs {
				got, o := start(e)
				switch {
				case wo.OK() != o.OK():
					c.Outcome(s.Shape + "/outcome-differs")
					c.Report(key, "embedding-changes-outcome", fmt.Sprintf("shape %s, mixin depth %d: [%s], with the points declared directly [%s]", s.Shape, depth+1, got, want), s)
				case o.OK() && got != want:
					c.Outcome(s.Shape + "/differs")
					c.Report(key, "embedding-changes-value", fmt.Sprintf("shape %s, mixin depth %d: points end as [%s], declared directly as [%s]", s.Shape, depth+1, got, want), s)
				default:
					c.Outcome(s.Shape + "/as-flat:" + strings.SplitN(want, ":", 2)[0])
				}
			}
			c.Sample(map[string]any{"shape": s.Shape, "flat": want})
			return
		}
		if s.Shape == "mixin-with-properties" {
			start := func(h any) (string, *scen.StartObs) {
				prov := &c11Prov{"prov"}
				rec := &c11Rec{}
				sc := &c11Scan{}
				sc.Tag, sc.NodeType = "mytag", "custom"
				o := scen.Start(scen.StartSpec{Ch: envx.Fixed("", nil), Comps: []any{h, prov, rec, sc},
					Opts: []app.SettingOption{app.SetConfigLoader(loader.NewRawLoader([]byte("sect:\n  a: x\n")))}})
				var pp *C11Props
				var w scen.Iface
				var v, u string
				switch x := h.(type) {
				case *c11HolderPropsMixin:
					pp, w, v, u = x.C11Props, x.W, x.V, x.U
				case *c11HolderPropsFlat:
					pp, w, v, u = x.P, x.W, x.V, x.U
				}
				a := "<nil>"
				if pp != nil {
					a = pp.A
				}
				return fmt.Sprintf("props.a=%q wire=%v value=%q untagged=%q custom=%v", a, w == scen.Iface(prov), v, u, rec.seen), o
			}
			want, wo := start(&c11HolderPropsFlat{U: "SENTINEL"})
			got, o := start(&c11HolderPropsMixin{C11BaseRepo{U: "SENTINEL"}})
			switch {
			case !wo.OK():
				c.Report(key, "flat-failed", "the holder with directly declared fields did not start: "+scen.FirstLine(wo.Err)+wo.Panic, s)
			case !o.OK():
				c.Outcome(s.Shape + "/failed")
				c.Report(key, "embedding-changes-outcome", fmt.Sprintf("shape %s: start-up failed: %s%s", s.Shape, scen.FirstLine(o.Err), o.Panic), s)
			case got != want:
				c.Outcome(s.Shape + "/differs")
				c.Report(key, "embedding-changes-value", fmt.Sprintf("a mixin that embeds a configuration-properties struct: its fields end as [%s], declared directly as [%s]", got, want), s)
			default:
				c.Outcome(s.Shape + "/as-flat")
			}
			c.Sample(map[string]any{"shape": s.Shape, "embedded": got, "flat": want})
			return
		}
		if s.Shape == "tagged-embedded" {
			start := func(h any) (string, *scen.StartObs) {
				prov, svc := &c11Prov{"prov"}, &C11Svc{X: 1}
				rec := &c11Rec{}
				sc := &c11Scan{}
				sc.Tag, sc.NodeType = "mytag", "custom"
				o := scen.Start(scen.StartSpec{Ch: envx.Fixed("", nil), Comps: []any{h, prov, svc, rec, sc},
					Opts: []app.SettingOption{app.SetConfigLoader(loader.NewRawLoader([]byte("sect:\n  a: x\n")))}})
				var gotSvc *C11Svc
				var gotG scen.Iface
				var gotS C11Settings
				switch x := h.(type) {
				case *c11HolderTaggedEmbeds:
					gotSvc, gotG, gotS = x.C11Svc, x.Iface, x.C11Settings
				case *c11HolderTaggedNamed:
					gotSvc, gotG, gotS = x.Svc, x.G, x.S
				}
				seen := strings.Join(rec.seen, ";")
				seen = strings.NewReplacer("C11Label=", "label=", "L=", "label=").Replace(seen)
				return fmt.Sprintf("svc=%v iface=%v settings=%q custom=[%s]", gotSvc == svc, gotG == scen.Iface(prov), gotS.A, seen), o
			}
			want, wo := start(&c11HolderTaggedNamed{})
			got, o := start(&c11HolderTaggedEmbeds{})
			switch {
			case !wo.OK():
				c.Report(key, "flat-failed", "the holder with named fields did not start: "+scen.FirstLine(wo.Err)+wo.Panic, s)
			case !o.OK():
				c.Outcome(s.Shape + "/failed")
				c.Report(key, "embedding-changes-outcome", fmt.Sprintf("shape %s: start-up failed: %s%s", s.Shape, scen.FirstLine(o.Err), o.Panic), s)
			case got != want:
				c.Outcome(s.Shape + "/differs")
				c.Report(key, "embedding-changes-value", fmt.Sprintf("tagged embedded fields (pointer, interface, struct with prefix tag, named string with a custom tag) end as [%s], the same fields declared with names as [%s]", got, want), s)
			default:
				c.Outcome(s.Shape + "/as-named")
			}
			c.Sample(map[string]any{"shape": s.Shape, "embedded": got, "named": want})
			return
		}
		if s.Shape == "diamond" || s.Shape == "two-depths" {
			var a1, a2 *C11Audit
			var hh any
			if s.Shape == "diamond" {
				x := &c11HolderDiamond{}
				hh, a1, a2 = x, &x.C11Left.C11Audit, &x.C11Right.C11Audit
			} else {
				x := &c11HolderTwoDepths{}
				hh, a1, a2 = x, &x.C11Audit, &x.C11InnerAudit.C11Audit
			}
			a1.U2, a2.U2 = "SENTINEL", "SENTINEL"
			rec, o, prov := run(hh)
			show := func(a *C11Audit) string {
				return fmt.Sprintf("V=%q W=%v U2=%q", a.V, a.W == scen.Iface(prov), a.U2)
			}
			want := `V="lit" W=true U2="SENTINEL"`
			switch {
			case !o.OK():
				c.Outcome(s.Shape + "/failed")
				c.Report(key, "embedding-changes-outcome", fmt.Sprintf("shape %s: start-up failed: %s%s", s.Shape, scen.FirstLine(o.Err), o.Panic), s)
			case show(a1) != want || show(a2) != want:
				c.Outcome(s.Shape + "/differs")
				c.Report(key, "embedding-changes-value", fmt.Sprintf("shape %s (one mixin type embedded twice): first occurrence [%s], second occurrence [%s], want both [%s]", s.Shape, show(a1), show(a2), want), s)
			case len(rec.seen) != 2:
				c.Outcome(s.Shape + "/custom-tag")
				c.Report(key, "custom-tag", fmt.Sprintf("shape %s: the custom tag processor received %v, want the tagged field of both occurrences", s.Shape, rec.seen), s)
			default:
				c.Outcome(s.Shape + "/both-occurrences-processed")
			}
			c.Sample(map[string]any{"shape": s.Shape, "first": show(a1), "second": show(a2)})
			return
		}
		var in *c11inner
		var h any
		switch s.Shape {
		case "unexported-embed":
			x := &c11HolderA{c11inner: sent, Pad: 7}
			h, in = x, &x.c11inner
		case "exported>unexported":
			x := &c11HolderB{C11Mid{sent}}
			h, in = x, &x.c11inner
		case "unexported>exported>unexported":
			x := &c11HolderC{c11low{C11Inner2{sent}}}
			h, in = x, &x.c11inner
		case "decoys":
			x := &c11HolderDecoys{c11DecoyInner: c11DecoyInner{"SENTINEL"}, Named: c11DecoyInner{"SENTINEL"}}
			_, o, _ := run(x)
			switch {
			case !o.OK():
				c.Outcome("decoys/failed")
				c.Report(key, "start-failed", "holder with non-recursing decoys did not start: "+scen.FirstLine(o.Err)+o.Panic, s)
			case x.OK != "lit":
				c.Outcome("decoys/not-processed")
				c.Report(key, "not-processed", fmt.Sprintf("directly declared tagged field next to decoys holds %q", x.OK), s)
			case x.c11DecoyInner.X != "SENTINEL" || x.Named.X != "SENTINEL" || x.C11PtrDecoy != nil:
				c.Outcome("decoys/frame")
				c.Report(key, "frame", fmt.Sprintf("a foreign-tagged / untagged container field was modified: tagged-anonymous.X=%q named.X=%q ptr=%v", x.c11DecoyInner.X, x.Named.X, x.C11PtrDecoy), s)
			default:
				c.Outcome("decoys/untouched")
			}
			c.Sample(map[string]any{"shape": s.Shape})
			return
		}
		rec, o, prov := run(h)
		got := view(in, prov)
		sort.Strings(rec.seen)
		sort.Strings(frec.seen)
		switch {
		case !o.OK():
			c.Outcome(s.Shape + "/failed")
			c.Report(key, "embedding-changes-outcome", fmt.Sprintf("shape %s: start-up failed (%s%s) although the flat shape starts", s.Shape, scen.FirstLine(o.Err), o.Panic), s)
		case got != want:
			c.Outcome(s.Shape + "/differs")
			c.Report(key, "embedding-changes-value", fmt.Sprintf("shape %s: fields inside the embedded struct end as [%s], declared directly as [%s]", s.Shape, got, want), s)
		case fmt.Sprint(rec.seen) != fmt.Sprint(frec.seen):
			c.Outcome(s.Shape + "/custom-tag")
			c.Report(key, "custom-tag", fmt.Sprintf("shape %s: custom tag processor received %v, flat shape %v", s.Shape, rec.seen, frec.seen), s)
		default:
			c.Outcome(s.Shape + "/same-as-flat")
		}
		c.Sample(map[string]any{"shape": s.Shape, "fields": got})
	})
}
