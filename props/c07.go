package props

import (
	"errors"
	"fmt"
	"reflect"
	"sort"

	"github.com/go-kid/ioc/app"
	"github.com/go-kid/ioc/container"
	"github.com/go-kid/ioc/container/processors"
	"github.com/go-kid/ioc/container/support"

	"verif/internal/core"
	"verif/internal/envx"
	"verif/internal/scen"
)

func init() {
	register(&Driver{
		ID:        "C07",
		Technique: "exhaustive enumeration of provider populations x name assignments x requested names x field kinds x required/optional x sibling-field placements (holders built with reflect.StructOf), each a real start; plus all registration sequences up to length 4 over instances with colliding names on the real singleton registry",
		Rule:      "programs = <=2 (thorough <=3) providers over types {TA,TB,TD} x names {x, y, default} with distinct registered names x requested name {x, y, TA's default name, absent} x field kind {*TA, I1, any} x required/optional x sibling {none, optional by-type field before, after, optional absent by-name field before}; non-trivial = requested name present with another provider of a compatible type also present, or present-but-not-assignable, or absent. Families added in later rounds (look-ups inside Init, retries after an abandoned attempt, user extension points at every Order, several containers, odd names / types / values) are listed per part in this file and described in MANIFEST.json (level_claimed.text) and DESIGN §7",
		Assumptions: []string{
			"by-name tags on slice-typed fields are outside the statement (single-valued points)",
			"more than three providers are not covered",
		},
		Parts: []Part{
			{Name: "byname", Run: c07Run, QuickS: 60, ThoroughS: 900},
			{Name: "registration", Run: c07Reg, Workers: 1, QuickS: 30, ThoroughS: 120},
			{Name: "processor-holders", Run: c07Proc, Workers: 2, QuickS: 30, ThoroughS: 60},
			{Name: "failing-target", Run: c07Failing, Workers: 2, QuickS: 30, ThoroughS: 60},
			{Name: "registered-under-another-name", Run: c07Renamed, Workers: 2, QuickS: 30, ThoroughS: 60},
			{Name: "shadowed-field-names", Run: c07Shadow, Workers: 1, QuickS: 30, ThoroughS: 60},
			{Name: "next-to-a-declining-processor", Run: c07Declined, Workers: 2, QuickS: 30, ThoroughS: 60},
		},
	})
}

type c07Case struct {
	Pop      []scen.Inst `json:"population"`
	Req      string      `json:"requested_name"`
	Kind     string      `json:"field_kind"` // PA I1 ANY
	Optional bool        `json:"optional"`
	Sibling  int         `json:"sibling"` // 0 none, 1 optional by-type before, 2 after, 3 optional absent by-name before
	Desc     bool        `json:"descending_order,omitempty"`
	// Wrap: a post-processor substitutes the component registered under the requested name after its
	// initialisation: "other" = by a wrapper of an unrelated type, "i1" = by a wrapper implementing I1
	Wrap string `json:"wrap,omitempty"`
	// Preset: the holder is registered with the field already holding an (unregistered) object of
	// an assignable type
	Preset bool `json:"field_preset,omitempty"`
}

// c07Sub substitutes the named component after initialisation.
type c07Sub struct {
	processors.DefaultComponentPostProcessor
	target, mode string
}

func (p *c07Sub) Naming() string { return "zz-c07sub" }
func (p *c07Sub) PostProcessAfterInitialization(c any, name string) (any, error) {
	if name != p.target {
		return c, nil
	}
	if p.mode == "i1" {
		return &c07WI1{Inner: c}, nil
	}
	return &c07W{Inner: c}, nil
}

type c07W struct{ Inner any }
type c07WI1 struct{ Inner any }

func (*c07WI1) M1() {}

var (
	tPA  = reflect.TypeOf((*scen.TA)(nil))
	tI1  = reflect.TypeOf((*scen.I1)(nil)).Elem()
	tI2  = reflect.TypeOf((*scen.I2)(nil)).Elem()
	tAny = reflect.TypeOf((*any)(nil)).Elem()
)

func c07Gen(c *core.Ctx) func(yield func(c07Case) bool) {
	return func(yield func(c07Case) bool) {
		maxP := 3
		var opts []scen.Inst
		for _, t := range []string{"TA", "TB", "TD"} {
			for _, n := range []string{"x", "y", ""} {
				opts = append(opts, scen.Inst{Typ: t, Name: n})
			}
		}
		var pops [][]scen.Inst
		var rec func(start int, cur []scen.Inst)
		rec = func(start int, cur []scen.Inst) {
			names := map[string]bool{}
			for _, in := range cur {
				if names[in.RegName()] {
					return
				}
				names[in.RegName()] = true
			}
			pops = append(pops, append([]scen.Inst{}, cur...))
			if len(cur) == maxP {
				return
			}
			for i := start; i < len(opts); i++ {
				rec(i+1, append(cur[:len(cur):len(cur)], opts[i]))
			}
		}
		rec(0, nil)
		// names that differ only by a blank at their edge or by case, requested with and without
		// tag arguments: a name selects exactly the component registered under exactly that name
		// (a comma inside brackets belongs to the name: generic default names look like Pair[int,string])
		odd := []string{"x", "x ", " x", "X", "x.y", "x,y", "c[u,v]", "c[u", "p(a,b)", "{a,b}"}
		for _, present := range [][]string{{"x", "x "}, {"x", " x"}, {"x "}, {" x"}, {"x", "X"}, {"X"}, {"x.y", "x"}, {"x", "x ", " x", "X"},
			{"c[u,v]"}, {"c[u,v]", "c[u"}, {"c[u"}, {"p(a,b)", "{a,b}"}, {"{a,b}", "x"}} {
			var pop []scen.Inst
			for _, n := range present {
				pop = append(pop, scen.Inst{Typ: "TA", Name: n})
			}
			for _, req := range odd {
				if req == "x,y" {
					continue // a top-level comma ends the value part of a tag
				}
				for _, kind := range []string{"PA", "I1", "ANY"} {
					for _, opt := range []bool{false, true} {
						if !yield(c07Case{pop, req, kind, opt, 0, false, "", false}) {
							return
						}
					}
				}
			}
		}
		for _, pop := range pops {
			for _, req := range []string{"x", "y", scen.DefaultName("TA"), "zz"} {
				for _, kind := range []string{"PA", "I1", "ANY"} {
					for _, opt := range []bool{false, true} {
						for sib := 0; sib < 4; sib++ {
							for _, desc := range []bool{false, true} {
								if desc && len(pop) < 2 {
									continue
								}
								if !yield(c07Case{pop, req, kind, opt, sib, desc, "", false}) {
									return
								}
								if sib == 0 && !desc && !yield(c07Case{pop, req, kind, opt, sib, desc, "", true}) {
									return
								}
								if sib == 0 && !desc && len(pop) <= 2 {
									for _, w := range []string{"other", "i1"} {
										if !yield(c07Case{pop, req, kind, opt, sib, desc, w, false}) {
											return
										}
									}
								}
							}
						}
					}
				}
			}
		}
	}
}

func c07Assignable(typ, kind string) bool {
	switch kind {
	case "PA":
		return typ == "TA"
	case "I1":
		return scen.Implements["I1"][typ]
	}
	return true
}

func c07Run(c *core.Ctx) {
	Cases(c, c07Gen(c), func(c *core.Ctx, cs c07Case) {
		ft := map[string]reflect.Type{"PA": tPA, "I1": tI1, "ANY": tAny}[cs.Kind]
		tag := cs.Req
		if cs.Optional {
			tag += ",required=false"
		}
		main := reflect.StructField{Name: "F", Type: ft, Tag: reflect.StructTag(fmt.Sprintf(`wire:"%s"`, tag))}
		var fields []reflect.StructField
		switch cs.Sibling {
		case 0:
			fields = []reflect.StructField{main}
		case 1:
			fields = []reflect.StructField{{Name: "G", Type: tI2, Tag: `wire:",required=false"`}, main}
		case 2:
			fields = []reflect.StructField{main, {Name: "G", Type: tI2, Tag: `wire:",required=false"`}}
		case 3:
			fields = []reflect.StructField{{Name: "G", Type: tI2, Tag: `wire:"nobody,required=false"`}, main}
		}
		holder := reflect.New(reflect.StructOf(fields))
		var decoy any
		if cs.Preset {
			decoy = scen.BuildInst(scen.Inst{Typ: "TA", Name: "decoy"}, 99) // never registered
			holder.Elem().FieldByName("F").Set(reflect.ValueOf(decoy))
		}
		var comps []any
		user := map[string]bool{}
		var target any
		targetTyp := ""
		for i, in := range cs.Pop {
			o := scen.BuildInst(in, i)
			comps = append(comps, o)
			user[in.RegName()] = true
			if in.RegName() == cs.Req {
				target, targetTyp = o, in.Typ
			}
		}
		comps = append(comps, holder.Interface())
		if cs.Wrap != "" {
			comps = append(comps, &c07Sub{target: cs.Req, mode: cs.Wrap})
		}
		var base []string
		if cs.Desc {
			for k := range user {
				base = append(base, k)
			}
			sort.Sort(sort.Reverse(sort.StringSlice(base)))
		}
		var published any
		o := scen.Start(scen.StartSpec{Ch: envx.Fixed("", nil), Comps: comps, User: user, Base: base, After: func(o *scen.StartObs) {
			if o.Err == nil && target != nil {
				published, _ = o.App.GetComponentByName(cs.Req)
			}
		}})
		c.S.Evaluations++
		c.S.Programs++
		c.S.States++
		c.S.Transitions += int64(o.Trace.Calls)
		satisfiable := target != nil && c07Assignable(targetTyp, cs.Kind)
		if cs.Wrap != "" && target != nil {
			// what is registered under the name is now the substitute
			satisfiable = cs.Kind == "ANY" || (cs.Kind == "I1" && cs.Wrap == "i1")
			targetTyp = "substitute(" + cs.Wrap + ") of " + targetTyp
			if published != nil {
				target = published
			}
		}
		if !satisfiable || len(cs.Pop) >= 2 {
			c.S.Nontrivial++
		}
		key := func(kind string) string { return "C07/" + kind + "/" + core.Hash(cs) }
		got := holder.Elem().FieldByName("F").Interface()
		why := "no component is registered under that name"
		if target != nil {
			why = fmt.Sprintf("the component registered under that name (%s) is not assignable to the field", targetTyp)
		}
		sig := fmt.Sprintf("%s/opt=%v/sat=%v/", cs.Kind, cs.Optional, satisfiable)
		switch {
		case o.Panic != "" || o.Abort != "" || len(o.ChildPanics) > 0:
			c.Outcome(sig + "panic")
			c.Report(key("panic"), "panic", fmt.Sprintf("start-up panicked instead of returning (by-name point `%s`, %s): %s%s", tag, why, o.Panic, o.Abort), cs)
		case satisfiable && o.Err != nil:
			c.Outcome(sig + "spurious-error")
			c.Report(key("spurious"), "spurious-error", fmt.Sprintf("by-name point `%s` is satisfiable but start-up failed: %s", tag, scen.FirstLine(o.Err)), cs)
		case satisfiable:
			c.Outcome(sig + "ok")
			if got != target {
				c.Report(key("wrong"), "wrong-component", fmt.Sprintf("by-name point `%s` holds %T(%s), want exactly the component published under that name: %T(%s)", tag, got, scen.IdOf(got), target, scen.IdOf(target)), cs)
			}
		case !cs.Optional && o.Err == nil:
			c.Outcome(sig + "missing-error")
			c.Report(key("noerr"), "missing-error", fmt.Sprintf("required by-name point `%s`: %s, but start-up succeeded (field holds %s)", tag, why, scen.IdOf(got)), cs)
		case !cs.Optional:
			c.Outcome(sig + "error-as-required")
		case o.Err != nil:
			c.Outcome(sig + "optional-failed")
			c.Report(key("optfail"), "optional-failed", fmt.Sprintf("optional by-name point `%s` (%s) made start-up fail: %s", tag, why, scen.FirstLine(o.Err)), cs)
		default:
			c.Outcome(sig + "untouched")
			if cs.Preset {
				if got != decoy {
					c.Report(key("touched"), "optional-touched", fmt.Sprintf("optional by-name point `%s` (%s) was not left untouched: it was registered holding an object of its own and now holds %s", tag, why, scen.IdOf(got)), cs)
				}
			} else if scen.IdOf(got) != "-" && got != nil {
				c.Report(key("touched"), "optional-touched", fmt.Sprintf("optional by-name point `%s` (%s) was not left untouched: holds %s", tag, why, scen.IdOf(got)), cs)
			}
		}
		if c.S.Programs%400 == 1 {
			c.Sample(map[string]any{"case": cs, "error": scen.FirstLine(o.Err)})
		}
	})
}

// ---- registration sequences on the real singleton registry

type c07RegCase struct {
	Seq []int `json:"sequence"` // indices into the instance pool
}

// zero-size components of different types share one address (runtime.zerobase); a struct and its
// first embedded field share one address too. Distinct components nevertheless.
type c07ZA struct{}

func (*c07ZA) Naming() string { return "z" }

type c07ZB struct{}

func (*c07ZB) Naming() string { return "z" }

type c07Inner struct{ X int }

func (*c07Inner) Naming() string { return "oi" }

type c07Outer struct{ c07Inner }

func c07Pool() []any {
	outer := &c07Outer{}
	return []any{
		scen.BuildInst(scen.Inst{Typ: "TA", Name: "x"}, 0),
		scen.BuildInst(scen.Inst{Typ: "TB", Name: "x"}, 1),                    // custom names collide
		scen.BuildInst(scen.Inst{Typ: "TD"}, 2),                               // default name
		scen.BuildInst(scen.Inst{Typ: "TA", Name: scen.DefaultName("TD")}, 3), // custom = another type's default name
		scen.BuildInst(scen.Inst{Typ: "TD"}, 4),                               // second default-named instance of one type
		&c07ZA{}, &c07ZB{},                                                    // same address, same name, different types
		outer, &outer.c07Inner, // same address, same (promoted) name, different types
	}
}

func c07Reg(c *core.Ctx) {
	gen := func(yield func(c07RegCase) bool) {
		maxLen := 4
		if c.Thorough() {
			maxLen = 5
		}
		var rec func(cur []int) bool
		rec = func(cur []int) bool {
			if len(cur) > 0 && !yield(c07RegCase{append([]int{}, cur...)}) {
				return false
			}
			if len(cur) == maxLen {
				return true
			}
			for i := 0; i < 9; i++ {
				if !rec(append(cur[:len(cur):len(cur)], i)) {
					return false
				}
			}
			return true
		}
		rec(nil)
	}
	regName := []string{"x", "x", scen.DefaultName("TD"), scen.DefaultName("TD"), scen.DefaultName("TD"), "z", "z", "oi", "oi"}
	Cases(c, gen, func(c *core.Ctx, cs c07RegCase) {
		pool := c07Pool()
		reg := support.NewRegistry()
		firstOf := map[string]any{}
		panics := 0
		for _, i := range cs.Seq {
			if _, ok := firstOf[regName[i]]; !ok {
				firstOf[regName[i]] = pool[i]
			}
			if scen.Protect(func() { reg.RegisterSingleton(pool[i]) }) != "" {
				panics++
			} else if got, err := reg.GetSingleton(regName[i]); err != nil || got != pool[i] {
				// a registration that returned normally must have registered the component: otherwise
				// two distinct components were both "registered" under one name
				c.Report("C07/registration/"+core.Hash(cs.Seq), "duplicate-accepted",
					fmt.Sprintf("sequence %v: registering a distinct component (%T) under the taken name %q returned normally; the name still maps to %T", cs.Seq, pool[i], regName[i], got), cs)
				return
			}
			c.S.Transitions++
		}
		c.S.Evaluations++
		c.S.Programs++
		c.S.States++
		if panics > 0 {
			c.S.Nontrivial++
		}
		c.Outcome(fmt.Sprintf("names=%d/panics=%d", len(firstOf), panics))
		key := "C07/registration/" + core.Hash(cs.Seq)
		names := reg.GetSingletonNames()
		if len(names) != len(firstOf) || reg.GetSingletonCount() != len(firstOf) {
			c.Report(key, "duplicate-name", fmt.Sprintf("after registering %v the registry lists names %v, want %d distinct names", cs.Seq, names, len(firstOf)), cs)
			return
		}
		for n, want := range firstOf {
			got, err := reg.GetSingleton(n)
			if err != nil || got != want {
				c.Report(key, "name-rebound", fmt.Sprintf("after registering %v name %q maps to %s, want the first instance registered under it (%s)", cs.Seq, n, scen.IdOf(got), scen.IdOf(want)), cs)
				return
			}
		}
		if len(cs.Seq) == 3 {
			c.Sample(map[string]any{"sequence": cs.Seq, "names": names})
		}
	})
}

// ---- by-name points whose holder is a user post-processor (created while the processor chain
// is being assembled, at its Order position)

type c07PH struct {
	processors.DefaultComponentPostProcessor
	F1 *scen.TA `wire:"x"`
	F2 scen.I1  `wire:"y"`
	F3 any      `wire:"x"`
	F4 *scen.TA `wire:"nobody,required=false"`
}

func (*c07PH) Naming() string { return "zz-c07holder" }

type c07PHOrdered struct {
	c07PH
	o int
}

func (p *c07PHOrdered) Order() int { return p.o }

type c07PHBad struct {
	processors.DefaultComponentPostProcessor
	F *scen.TA `wire:"nobody"`
}

func (*c07PHBad) Naming() string { return "zz-c07holder" }

type c07PHBadOrdered struct {
	c07PHBad
	o int
}

func (p *c07PHBadOrdered) Order() int { return p.o }

type c07ProcCase struct {
	Order   int  `json:"order"` // -1: unordered
	Bad     bool `json:"required_point_names_nothing,omitempty"`
	Default bool `json:"also_a_default_named_TA,omitempty"`
	Desc    bool `json:"descending_order,omitempty"`
}

func c07Proc(c *core.Ctx) {
	gen := func(yield func(c07ProcCase) bool) {
		// below Order 2 the built-in wiring processor is not in place yet when the holder is created
		for _, o := range []int{3, 4, 5, 9, 1000, -1} {
			for _, bad := range []bool{false, true} {
				for _, def := range []bool{false, true} {
					for _, desc := range []bool{false, true} {
						if !yield(c07ProcCase{o, bad, def, desc}) {
							return
						}
					}
				}
			}
		}
	}
	Cases(c, gen, func(c *core.Ctx, cs c07ProcCase) {
		x := scen.BuildInst(scen.Inst{Typ: "TA", Name: "x"}, 0)
		y := scen.BuildInst(scen.Inst{Typ: "TB", Name: "y"}, 1)
		comps := []any{x, y}
		user := map[string]bool{"x": true, "y": true}
		if cs.Default {
			comps = append(comps, scen.BuildInst(scen.Inst{Typ: "TA"}, 2))
			user[scen.DefaultName("TA")] = true
		}
		var h *c07PH
		switch {
		case cs.Bad && cs.Order < 0:
			comps = append(comps, &c07PHBad{})
		case cs.Bad:
			comps = append(comps, &c07PHBadOrdered{o: cs.Order})
		case cs.Order < 0:
			h = &c07PH{}
			comps = append(comps, h)
		default:
			ho := &c07PHOrdered{o: cs.Order}
			h = &ho.c07PH
			comps = append(comps, ho)
		}
		var base []string
		if cs.Desc {
			for k := range user {
				base = append(base, k)
			}
			sort.Sort(sort.Reverse(sort.StringSlice(base)))
		}
		o := scen.Start(scen.StartSpec{Ch: envx.Fixed("", nil), Comps: comps, User: user, Base: base})
		c.S.Evaluations++
		c.S.Programs++
		c.S.States++
		c.S.Nontrivial++
		c.S.Transitions += int64(o.Trace.Calls)
		key := "C07/procholder/" + core.Hash(cs)
		desc := fmt.Sprintf("by-name points held by a user post-processor (Order %d, -1 = unordered)", cs.Order)
		switch {
		case o.Panic != "" || o.Abort != "" || len(o.ChildPanics) > 0:
			c.Outcome("proc/panic")
			c.Report(key, "panic", desc+": start-up panicked: "+o.Panic+o.Abort, cs)
		case cs.Bad && o.Err == nil:
			c.Outcome("proc/missing-error")
			c.Report(key, "missing-error", desc+": a required point names a component that does not exist, but start-up succeeded", cs)
		case cs.Bad:
			c.Outcome("proc/error-as-required")
		case o.Err != nil:
			c.Outcome("proc/spurious-error")
			c.Report(key, "spurious-error", desc+": every named component exists and fits, but start-up failed: "+scen.FirstLine(o.Err), cs)
		case h.F1 != x || h.F2 != scen.I1(y.(*scen.TB)) || h.F3 != x || h.F4 != nil:
			c.Outcome("proc/wrong")
			c.Report(key, "wrong-component", fmt.Sprintf("%s: F1 `x` holds %s, F2 `y` holds %s, F3 `x` holds %s, optional F4 `nobody` holds %s; want x, y, x, nothing", desc, scen.IdOf(h.F1), scen.IdOf(h.F2), scen.IdOf(h.F3), scen.IdOf(h.F4)), cs)
		default:
			c.Outcome("proc/ok")
		}
		c.Sample(map[string]any{"case": cs, "error": scen.FirstLine(o.Err)})
	})
}

// ---- the named component exists but cannot be created

type c07FailEager struct{ n string }

func (t *c07FailEager) Naming() string { return t.n }
func (t *c07FailEager) M1()            {}
func (t *c07FailEager) Init() error    { return errors.New("the named component cannot be initialised") }

type c07FailLazy struct{ c07FailEager }

func (*c07FailLazy) LazyInit() {}

type c07FailCase struct {
	Lazy     bool   `json:"lazy_target"`
	Kind     string `json:"field_kind"` // I1 ANY
	Optional bool   `json:"optional"`
	Sibling  int    `json:"sibling"`
	Other    bool   `json:"another_provider_of_the_type"`
	Desc     bool   `json:"descending_order,omitempty"`
}

// c07Failing: a by-name point whose named component is registered and assignable but fails in its
// Init. The point can only ever receive that component: a start that succeeds must have bound it
// (the statement allows the untouched optional field only when no such component exists or it
// does not fit).
func c07Failing(c *core.Ctx) {
	gen := func(yield func(c07FailCase) bool) {
		for _, lazy := range []bool{false, true} {
			for _, kind := range []string{"I1", "ANY"} {
				for _, opt := range []bool{false, true} {
					for sib := 0; sib < 4; sib++ {
						for _, other := range []bool{false, true} {
							for _, desc := range []bool{false, true} {
								if !yield(c07FailCase{lazy, kind, opt, sib, other, desc}) {
									return
								}
							}
						}
					}
				}
			}
		}
	}
	Cases(c, gen, func(c *core.Ctx, cs c07FailCase) {
		ft := map[string]reflect.Type{"I1": tI1, "ANY": tAny}[cs.Kind]
		tag := "x"
		if cs.Optional {
			tag += ",required=false"
		}
		main := reflect.StructField{Name: "F", Type: ft, Tag: reflect.StructTag(fmt.Sprintf(`wire:"%s"`, tag))}
		var fields []reflect.StructField
		switch cs.Sibling {
		case 0:
			fields = []reflect.StructField{main}
		case 1:
			fields = []reflect.StructField{{Name: "G", Type: tI2, Tag: `wire:",required=false"`}, main}
		case 2:
			fields = []reflect.StructField{main, {Name: "G", Type: tI2, Tag: `wire:",required=false"`}}
		case 3:
			fields = []reflect.StructField{{Name: "G", Type: tI2, Tag: `wire:"nobody,required=false"`}, main}
		}
		holder := reflect.New(reflect.StructOf(fields))
		var target any = &c07FailEager{"x"}
		if cs.Lazy {
			target = &c07FailLazy{c07FailEager{"x"}}
		}
		comps := []any{target, holder.Interface()}
		user := map[string]bool{"x": true}
		if cs.Other {
			comps = append(comps, scen.BuildInst(scen.Inst{Typ: "TA", Name: "y"}, 1))
			user["y"] = true
		}
		var base []string
		if cs.Desc {
			base = []string{"y", "x"}
		}
		o := scen.Start(scen.StartSpec{Ch: envx.Fixed("", nil), Comps: comps, User: user, Base: base})
		c.S.Evaluations++
		c.S.Programs++
		c.S.States++
		c.S.Nontrivial++
		c.S.Transitions += int64(o.Trace.Calls)
		key := "C07/failing/" + core.Hash(cs)
		got := holder.Elem().FieldByName("F").Interface()
		switch {
		case o.Panic != "" || o.Abort != "" || len(o.ChildPanics) > 0:
			c.Outcome("failing-target/panic")
			c.Report(key, "panic", fmt.Sprintf("by-name point `%s` whose named component fails in Init: start-up panicked: %s%s", tag, o.Panic, o.Abort), cs)
		case o.Err != nil:
			c.Outcome("failing-target/start-fails")
		case got != target:
			c.Outcome("failing-target/started-without-it")
			c.Report(key, "wrong-component", fmt.Sprintf("by-name point `%s`: the component registered under that name exists and fits the field but fails in Init; start-up succeeded and the field holds %T(%v), not that component", tag, got, got), cs)
		default:
			c.Outcome("failing-target/bound")
		}
		c.Sample(map[string]any{"case": cs, "error": scen.FirstLine(o.Err)})
	})
}

// ---- a component registered (through a user-supplied singleton registry) under another name
// than the one it declares itself

type c07ModuleRegistry struct {
	container.SingletonRegistry
	qualified map[string]any
	order     []string
}

func (r *c07ModuleRegistry) RegisterNamed(name string, c any) {
	r.qualified[name] = c
	r.order = append(r.order, name)
}
func (r *c07ModuleRegistry) GetSingleton(name string) (any, error) {
	if c, ok := r.qualified[name]; ok {
		return c, nil
	}
	return r.SingletonRegistry.GetSingleton(name)
}
func (r *c07ModuleRegistry) ContainsSingleton(name string) bool {
	if _, ok := r.qualified[name]; ok {
		return true
	}
	return r.SingletonRegistry.ContainsSingleton(name)
}
func (r *c07ModuleRegistry) GetSingletonNames() []string {
	return append(r.SingletonRegistry.GetSingletonNames(), r.order...)
}
func (r *c07ModuleRegistry) GetSingletonCount() int { return len(r.GetSingletonNames()) }

type c07RenamedCase struct {
	Own      string `json:"declared_name"` // what the component's Naming() answers ("" = none)
	Other    bool   `json:"another_component_registered_under_the_declared_name"`
	Kind     string `json:"field_kind"`
	Optional bool   `json:"optional"`
	Desc     bool   `json:"descending_order,omitempty"`
}

func c07Renamed(c *core.Ctx) {
	gen := func(yield func(c07RenamedCase) bool) {
		for _, own := range []string{"primary", ""} {
			for _, other := range []bool{false, true} {
				if own == "" && other {
					continue
				}
				for _, kind := range []string{"PA", "I1", "ANY"} {
					for _, opt := range []bool{false, true} {
						for _, desc := range []bool{false, true} {
							if !yield(c07RenamedCase{own, other, kind, opt, desc}) {
								return
							}
						}
					}
				}
			}
		}
	}
	Cases(c, gen, func(c *core.Ctx, cs c07RenamedCase) {
		ft := map[string]reflect.Type{"PA": tPA, "I1": tI1, "ANY": tAny}[cs.Kind]
		arg := ""
		if cs.Optional {
			arg = ",required=false"
		}
		holder := reflect.New(reflect.StructOf([]reflect.StructField{
			{Name: "Q", Type: ft, Tag: reflect.StructTag(fmt.Sprintf(`wire:"orders.primary%s"`, arg))},
			{Name: "Own", Type: ft, Tag: `wire:"primary,required=false"`},
		}))
		renamed := scen.BuildInst(scen.Inst{Typ: "TA", Name: cs.Own}, 0)
		reg := &c07ModuleRegistry{SingletonRegistry: support.NewRegistry(), qualified: map[string]any{}}
		reg.RegisterNamed("orders.primary", renamed)
		comps := []any{holder.Interface()}
		user := map[string]bool{"orders.primary": true}
		var other any
		if cs.Other {
			other = scen.BuildInst(scen.Inst{Typ: "TA", Name: "primary"}, 1)
			comps = append(comps, other)
			user["primary"] = true
		}
		var base []string
		if cs.Desc {
			base = []string{"primary", "orders.primary"}
		}
		o := scen.Start(scen.StartSpec{Ch: envx.Fixed("", nil), Comps: comps, User: user, Base: base, Opts: []app.SettingOption{app.SetRegistry(reg)}})
		c.S.Evaluations++
		c.S.Programs++
		c.S.States++
		c.S.Nontrivial++
		c.S.Transitions += int64(o.Trace.Calls)
		key := "C07/renamed/" + core.Hash(cs)
		desc := fmt.Sprintf("a *TA that declares the name %q is registered under \"orders.primary\" (another *TA registered under %q: %v); point `wire:\"orders.primary%s\"` of kind %s", cs.Own, "primary", cs.Other, arg, cs.Kind)
		q, own := holder.Elem().Field(0).Interface(), holder.Elem().Field(1).Interface()
		switch {
		case o.Panic != "" || o.Abort != "" || len(o.ChildPanics) > 0:
			c.Outcome("renamed/panic")
			c.Report(key, "panic", desc+": start-up panicked: "+o.Panic+o.Abort, cs)
		case o.Err != nil:
			c.Outcome("renamed/spurious-error")
			c.Report(key, "spurious-error", desc+": the named component exists and fits, but start-up failed: "+scen.FirstLine(o.Err), cs)
		case q != renamed:
			c.Outcome("renamed/wrong-component")
			c.Report(key, "wrong-component", fmt.Sprintf("%s holds %s, want exactly the component registered under that name (%s)", desc, scen.IdOf(q), scen.IdOf(renamed)), cs)
		case cs.Other && own != other:
			c.Outcome("renamed/wrong-component")
			c.Report(key, "wrong-component", fmt.Sprintf("%s: the optional point `wire:\"primary\"` holds %s, want the component registered under \"primary\" (%s)", desc, scen.IdOf(own), scen.IdOf(other)), cs)
		case !cs.Other && own != nil && scen.IdOf(own) != "-":
			c.Outcome("renamed/optional-touched")
			c.Report(key, "optional-touched", fmt.Sprintf("%s: nothing is registered under \"primary\", but the optional point `wire:\"primary\"` holds %s", desc, scen.IdOf(own)), cs)
		default:
			c.Outcome("renamed/exactly-the-registered-one")
		}
		c.Sample(map[string]any{"case": cs})
	})
}

// ---- by-name points inside a mixin whose field has the name of a field of the embedding struct

type C07ShadowBase struct {
	Repo scen.I1 `wire:"x"`
}
type C07ShadowBaseOpt struct {
	Repo scen.I1 `wire:"x,required=false"`
}
type c07ShadowHolder struct {
	C07ShadowBase
	Repo scen.I1 `wire:"y"`
}
type c07ShadowHolderOpt struct {
	C07ShadowBaseOpt
	Repo scen.I1 `wire:"y"`
}

type c07ShadowCase struct {
	XPresent bool `json:"x_registered"`
	Optional bool `json:"inner_point_optional"`
}

func c07Shadow(c *core.Ctx) {
	gen := func(yield func(c07ShadowCase) bool) {
		for _, xp := range []bool{true, false} {
			for _, opt := range []bool{false, true} {
				if !yield(c07ShadowCase{xp, opt}) {
					return
				}
			}
		}
	}
	Cases(c, gen, func(c *core.Ctx, cs c07ShadowCase) {
		y := scen.BuildInst(scen.Inst{Typ: "TA", Name: "y"}, 1)
		comps := []any{y}
		var x any
		if cs.XPresent {
			x = scen.BuildInst(scen.Inst{Typ: "TA", Name: "x"}, 0)
			comps = append(comps, x)
		}
		var inner, outer func() scen.I1
		if cs.Optional {
			h := &c07ShadowHolderOpt{}
			comps, inner, outer = append(comps, h), func() scen.I1 { return h.C07ShadowBaseOpt.Repo }, func() scen.I1 { return h.Repo }
		} else {
			h := &c07ShadowHolder{}
			comps, inner, outer = append(comps, h), func() scen.I1 { return h.C07ShadowBase.Repo }, func() scen.I1 { return h.Repo }
		}
		o := scen.Start(scen.StartSpec{Ch: envx.Fixed("", nil), Comps: comps})
		c.S.Evaluations++
		c.S.Programs++
		c.S.States++
		c.S.Nontrivial++
		c.S.Transitions += int64(o.Trace.Calls)
		key := "C07/shadowed/" + core.Hash(cs)
		desc := fmt.Sprintf("a mixin's point `wire:\"x\"` (optional: %v) in a field called like a field of the embedding struct (`wire:\"y\"`); x registered: %v", cs.Optional, cs.XPresent)
		switch {
		case o.Panic != "" || o.Abort != "":
			c.Outcome("shadowed/panic")
			c.Report(key, "panic", desc+": "+o.Panic+o.Abort, cs)
		case !cs.XPresent && !cs.Optional && o.Err == nil:
			c.Outcome("shadowed/missing-error")
			c.Report(key, "missing-error", desc+": the required point names nothing but start-up succeeded", cs)
		case !cs.XPresent && !cs.Optional:
			c.Outcome("shadowed/error-as-required")
		case o.Err != nil:
			c.Outcome("shadowed/spurious-error")
			c.Report(key, "spurious-error", desc+": start-up failed: "+scen.FirstLine(o.Err), cs)
		case outer() != y.(scen.I1):
			c.Outcome("shadowed/wrong-component")
			c.Report(key, "wrong-component", desc+": the embedding struct's own point does not hold y", cs)
		case cs.XPresent && inner() != x.(scen.I1):
			c.Outcome("shadowed/wrong-component")
			c.Report(key, "wrong-component", fmt.Sprintf("%s: the mixin's point holds %s, want exactly the component registered under x", desc, scen.IdOf(inner())), cs)
		case !cs.XPresent && inner() != nil:
			c.Outcome("shadowed/optional-touched")
			c.Report(key, "optional-touched", desc+": the optional point names nothing but was set", cs)
		default:
			c.Outcome("shadowed/as-named")
		}
		c.Sample(map[string]any{"case": cs})
	})
}

// ---- by-name points of a component that an early user instantiation-aware processor declines
// (its PostProcessAfterInstantiation answers false - what the library's default base does)

type c07DeclCase struct {
	Present  bool   `json:"named_component_registered"`
	Kind     string `json:"field_kind"`
	Optional bool   `json:"optional"`
	Mode     string `json:"early_processor"`
}

func c07Declined(c *core.Ctx) {
	gen := func(yield func(c07DeclCase) bool) {
		for _, mode := range []string{"declines", "answers-empty-list"} {
			for _, present := range []bool{true, false} {
				for _, kind := range []string{"PA", "I1", "ANY"} {
					for _, opt := range []bool{false, true} {
						if !yield(c07DeclCase{present, kind, opt, mode}) {
							return
						}
					}
				}
			}
		}
	}
	Cases(c, gen, func(c *core.Ctx, cs c07DeclCase) {
		ft := map[string]reflect.Type{"PA": tPA, "I1": tI1, "ANY": tAny}[cs.Kind]
		tag := "x"
		if cs.Optional {
			tag += ",required=false"
		}
		holder := reflect.New(reflect.StructOf([]reflect.StructField{{Name: "F", Type: ft, Tag: reflect.StructTag(fmt.Sprintf(`wire:"%s"`, tag))}}))
		comps := []any{holder.Interface(), &c11Early{mode: cs.Mode}, scen.BuildInst(scen.Inst{Typ: "TA", Name: "y"}, 1)}
		var target any
		if cs.Present {
			target = scen.BuildInst(scen.Inst{Typ: "TA", Name: "x"}, 0)
			comps = append(comps, target)
		}
		o := scen.Start(scen.StartSpec{Ch: envx.Fixed("", nil), Comps: comps})
		c.S.Evaluations++
		c.S.Programs++
		c.S.States++
		c.S.Nontrivial++
		c.S.Transitions += int64(o.Trace.Calls)
		key := "C07/declined/" + core.Hash(cs)
		desc := fmt.Sprintf("by-name point `wire:\"%s\"` (%s) next to an early user processor that %s; x registered: %v", tag, cs.Kind, cs.Mode, cs.Present)
		got := holder.Elem().Field(0).Interface()
		switch {
		case o.Panic != "" || o.Abort != "":
			c.Outcome("declined/panic")
			c.Report(key, "panic", desc+": "+o.Panic+o.Abort, cs)
		case cs.Present && o.Err != nil:
			c.Outcome("declined/spurious-error")
			c.Report(key, "spurious-error", desc+": start-up failed: "+scen.FirstLine(o.Err), cs)
		case cs.Present && got != target:
			c.Outcome("declined/wrong-component")
			c.Report(key, "wrong-component", fmt.Sprintf("%s: the point holds %s, want exactly the component registered under x", desc, scen.IdOf(got)), cs)
		case !cs.Present && !cs.Optional && o.Err == nil:
			c.Outcome("declined/missing-error")
			c.Report(key, "missing-error", desc+": the required point names nothing but start-up succeeded", cs)
		case !cs.Present && cs.Optional && (o.Err != nil || (got != nil && scen.IdOf(got) != "-")):
			c.Outcome("declined/optional")
			c.Report(key, "optional-touched", fmt.Sprintf("%s: err=%v, field %s", desc, scen.FirstLine(o.Err), scen.IdOf(got)), cs)
		default:
			c.Outcome("declined/as-named")
		}
		c.Sample(map[string]any{"case": cs})
	})
}
