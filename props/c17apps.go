package props

import (
	"fmt"
	"reflect"
	"strings"

	"github.com/go-kid/ioc/app"
	"github.com/go-kid/ioc/configure/loader"
	"github.com/go-kid/ioc/definition"
	"github.com/go-kid/ioc/util/vsync"

	"verif/internal/core"
	"verif/internal/scen"
)

// Two (three) containers in one process, each with its own configuration for the same keys: every
// interleaving of their operation sequences (start; look a lazily created holder up). Each
// holder must be bound from its own container's configuration, identically through prefix, value
// placeholder, prop shorthand and expression.

type c17Fields struct {
	PS string   `prefix:"k.s"`
	VS string   `value:"${k.s}"`
	QS string   `prop:"k.s"`
	PI int      `prefix:"k.i"`
	VI int      `value:"${k.i}"`
	QI int      `prop:"k.i"`
	PL []string `prefix:"k.l"`
	VL []string `value:"${k.l}"`
	QL []string `prop:"k.l"`
	E  int      `value:"#{${k.i}+1}"`
	D  string   `value:"${k.absent:${k.s}}"`
	W  string   `value:"${k.s},validate=required"`
}

type c17Eager struct {
	c17Fields
}

func (*c17Eager) Naming() string { return "eager-holder" }

type c17Lazy struct {
	definition.LazyInitComponent
	c17Fields
}

func (*c17Lazy) Naming() string { return "lazy-holder" }

type c17AppsCase struct {
	Apps int      `json:"containers"`
	Ops  []string `json:"ops"` // "s<i>" start container i, "l<i>" look its lazy holder up
}

var c17AppCfg = []struct {
	s string
	i int
	l []string
}{{"alpha", 1111, []string{"a", "b"}}, {"beta", 2222, []string{"c"}}, {"gamma", 3333, []string{"d", "e", "f"}}}

func c17Apps(c *core.Ctx) {
	gen := func(yield func(c17AppsCase) bool) {
		for _, n := range []int{2, 3} {
			// all interleavings of the per-container sequences [s_i, l_i]
			var rec func(cur []string, next []int) bool
			rec = func(cur []string, next []int) bool {
				done := true
				for i := 0; i < n; i++ {
					if next[i] < 2 {
						done = false
						nn := append([]int{}, next...)
						nn[i]++
						op := fmt.Sprintf("%c%d", "sl"[next[i]], i)
						if !rec(append(cur[:len(cur):len(cur)], op), nn) {
							return false
						}
					}
				}
				if done {
					return yield(c17AppsCase{Apps: n, Ops: append([]string{}, cur...)})
				}
				return true
			}
			if !rec(nil, make([]int, n)) {
				return
			}
		}
	}
	Cases(c, gen, func(c *core.Ctx, cs c17AppsCase) {
		apps := make([]*app.App, cs.Apps)
		eager := make([]*c17Eager, cs.Apps)
		lazy := make([]*c17Lazy, cs.Apps)
		key := "C17/containers/" + core.Hash(cs)
		c.S.Programs++
		c.S.Nontrivial++
		c.S.Evaluations++
		c.S.States++
		c.S.Transitions += int64(len(cs.Ops))
		check := func(who string, i int, f *c17Fields) bool {
			w := c17AppCfg[i]
			want := c17Fields{PS: w.s, VS: w.s, QS: w.s, PI: w.i, VI: w.i, QI: w.i, PL: w.l, VL: w.l, QL: w.l, E: w.i + 1, D: w.s, W: w.s}
			if !reflect.DeepEqual(*f, want) {
				c.Outcome("foreign-configuration")
				c.Report(key, "wrong-value", fmt.Sprintf("operations %v: the %s of container %d (configuration k.s=%s k.i=%d k.l=%v) is bound to %+v, want %+v", cs.Ops, who, i, w.s, w.i, w.l, *f, want), cs)
				return false
			}
			return true
		}
		failed := ""
		vsync.Chooser, vsync.OrderHook = nil, nil
		vsync.Begin()
		pan := scen.Protect(func() {
			for _, op := range cs.Ops {
				var i int
				fmt.Sscan(op[1:], &i)
				switch op[0] {
				case 's':
					w := c17AppCfg[i]
					doc := fmt.Sprintf("k:\n  s: %s\n  i: %d\n  l: [%s]\n", w.s, w.i, strings.Join(w.l, ", "))
					apps[i], eager[i], lazy[i] = app.NewApp(), &c17Eager{}, &c17Lazy{}
					if err := apps[i].Run(app.SetConfigLoader(loader.NewRawLoader([]byte(doc))), app.SetComponents(eager[i], lazy[i])); err != nil {
						failed = fmt.Sprintf("start of container %d failed: %s", i, scen.FirstLine(err))
						return
					}
					if !check("eager holder", i, &eager[i].c17Fields) {
						failed = "-"
						return
					}
				case 'l':
					got, err := apps[i].GetComponentByName("lazy-holder")
					if err != nil || got != any(lazy[i]) {
						failed = fmt.Sprintf("look-up of the lazy holder of container %d: %v (same object: %v)", i, scen.FirstLine(err), got == any(lazy[i]))
						return
					}
					if !check("lazily created holder", i, &lazy[i].c17Fields) {
						failed = "-"
						return
					}
				}
			}
			// at the end every holder still has its own container's values
			for i := range apps {
				if !check("eager holder (at the end)", i, &eager[i].c17Fields) || !check("lazy holder (at the end)", i, &lazy[i].c17Fields) {
					failed = "-"
					return
				}
			}
		})
		vsync.End()
		switch {
		case pan != "":
			c.Outcome("panic")
			c.Report(key, "panic", fmt.Sprintf("operations %v panicked: %s", cs.Ops, pan), cs)
		case failed == "-":
		case failed != "":
			c.Outcome("failed")
			c.Report(key, "start-failed", fmt.Sprintf("operations %v: %s", cs.Ops, failed), cs)
		default:
			c.Outcome(fmt.Sprintf("containers=%d/independent", cs.Apps))
		}
		c.Sample(map[string]any{"case": cs})
	})
}

// ---- bound containers (maps, lists) are the component's own: changing one after the start does
// not change what another component was given, what the configuration answers, or what a
// component bound later receives

type c17Owner struct {
	M map[string]any `prefix:"m"`
	L []any          `prefix:"li"`
}

func (*c17Owner) Naming() string { return "a-owner" }

type c17OtherPrefix struct {
	M map[string]any `prefix:"m"`
	L []any          `prefix:"li"`
}
type c17OtherValue struct {
	M map[string]any `value:"${m}"`
	L []any          `value:"${li}"`
}
type c17OtherProp struct {
	M map[string]any `prop:"m"`
	L []any          `prop:"li"`
}
type c17LateOther struct {
	definition.LazyInitComponent
	M map[string]any `prefix:"m"`
	L []any          `prefix:"li"`
}

func (*c17LateOther) Naming() string { return "late-other" }

type c17AliasCase struct {
	Other string `json:"other_binding"` // prefix value prop
}

func c17Alias(c *core.Ctx) {
	gen := func(yield func(c17AliasCase) bool) {
		for _, o := range []string{"prefix", "value", "prop"} {
			if !yield(c17AliasCase{o}) {
				return
			}
		}
	}
	Cases(c, gen, func(c *core.Ctx, cs c17AliasCase) {
		doc := "m:\n  a: x\n  n: 3\nli: [1, 2]\n"
		owner, late := &c17Owner{}, &c17LateOther{}
		var other any
		var view func() (map[string]any, []any)
		switch cs.Other {
		case "prefix":
			x := &c17OtherPrefix{}
			other, view = x, func() (map[string]any, []any) { return x.M, x.L }
		case "value":
			x := &c17OtherValue{}
			other, view = x, func() (map[string]any, []any) { return x.M, x.L }
		default:
			x := &c17OtherProp{}
			other, view = x, func() (map[string]any, []any) { return x.M, x.L }
		}
		show := func(m map[string]any, l []any) string { return fmt.Sprintf("m=%v li=%v", c17Norm(m), c17Norm(l)) }
		c.S.Programs++
		c.S.Nontrivial++
		c.S.Evaluations++
		c.S.States++
		c.S.Transitions += 4
		key := "C17/aliasing/" + cs.Other
		bad := ""
		var a *app.App
		vsync.Chooser, vsync.OrderHook = nil, nil
		vsync.Begin()
		pan := scen.Protect(func() {
			a = app.NewApp()
			if err := a.Run(app.SetConfigLoader(loader.NewRawLoader([]byte(doc))), app.SetComponents(owner, other, late)); err != nil {
				bad = "start-up failed: " + scen.FirstLine(err)
				return
			}
			m0, l0 := view()
			before := show(m0, l0)
			cfgBefore := fmt.Sprintf("%v %v", c17Norm(a.Get("m")), c17Norm(a.Get("li")))
			// the owner changes what it was given
			owner.M["zz"] = "mutated"
			delete(owner.M, "a")
			if len(owner.L) > 0 {
				owner.L[0] = "mutated"
			}
			m1, l1 := view()
			if after := show(m1, l1); after != before {
				bad = fmt.Sprintf("after the first component changed its own map / list, the component bound by %s holds [%s], before [%s]", cs.Other, after, before)
				return
			}
			if cfgAfter := fmt.Sprintf("%v %v", c17Norm(a.Get("m")), c17Norm(a.Get("li"))); cfgAfter != cfgBefore {
				bad = fmt.Sprintf("after a component changed its own map / list, the configuration answers [%s], before [%s]", cfgAfter, cfgBefore)
				return
			}
			if _, err := a.GetComponentByName("late-other"); err != nil {
				bad = "look-up of the lazily created component failed: " + scen.FirstLine(err)
				return
			}
			if got := show(late.M, late.L); got != before {
				bad = fmt.Sprintf("a component bound after another one changed its own map / list holds [%s], configured [%s]", got, before)
			}
		})
		vsync.End()
		switch {
		case pan != "":
			c.Outcome("aliasing/panic")
			c.Report(key, "panic", pan, cs)
		case bad != "":
			c.Outcome("aliasing/shared")
			c.Report(key, "value-changed", bad, cs)
		default:
			c.Outcome("aliasing/independent")
		}
		c.Sample(map[string]any{"case": cs})
	})
}
