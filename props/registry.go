// Package props holds one driver per property: program family + bounds + oracle.
package props

import (
	"encoding/json"
	"fmt"

	"verif/internal/core"
)

// Part is one independently sharded piece of a check.
type Part struct {
	Name    string
	Race    bool // needs the -race build (E2 with tsan as per-schedule oracle)
	Workers int  // 0 = all cores
	// Verbose: run the repository code at trace log level with stderr discarded, so that the
	// logging code paths (shared logger state touched from concurrent phases) are really executed.
	Verbose bool
	// Budget in seconds for (quick, thorough); 0 = default.
	QuickS, ThoroughS int
	Run               func(c *core.Ctx)
}

// Driver describes the check of one property.
type Driver struct {
	ID        string
	Technique string
	// HangIsViolation: the property states termination, so an execution that never returns is a
	// violation (otherwise it is an engine error).
	HangIsViolation bool
	Rule            string
	Assumptions     []string
	Parts           []Part
}

var Registry = map[string]*Driver{}

func register(d *Driver) { Registry[d.ID] = d }

// Cases runs fn on every case produced by gen that belongs to this shard; in replay mode it
// runs the recorded case five times instead (a violation must reproduce every time).
func Cases[T any](c *core.Ctx, gen func(yield func(T) bool), fn func(c *core.Ctx, t T)) {
	if c.ReplayCase != nil {
		var t T
		if err := json.Unmarshal(c.ReplayCase, &t); err != nil {
			panic(fmt.Sprintf("replay: cannot decode case: %v", err))
		}
		for i := 0; i < 5; i++ {
			fn(c, t)
		}
		return
	}
	idx := 0
	gen(func(t T) bool {
		i := idx
		idx++
		if !c.Mine(i) {
			return true
		}
		if i&63 == 0 && c.Expired() {
			return false
		}
		core.SetCurrentCase(t)
		core.Tick()
		fn(c, t)
		return true
	})
}
