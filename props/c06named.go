package props

import (
	"fmt"
	"reflect"
	"sort"

	"verif/internal/core"
	"verif/internal/envx"
	"verif/internal/scen"
)

// Named pointer types: `type c6Ref *scen.TA` is a pointer type of its own. A point declared with it
// is a pointer field whose "exactly that pointer type" no *scen.TA component has; a component that
// was registered as a c6Ref value has exactly that type - and not the type *scen.TA.

type c6Ref *scen.TA

type c6NamedCase struct {
	Plain    int  `json:"plain_TA_components"`     // 0-2 components registered as *scen.TA
	Named    bool `json:"component_of_named_type"` // one component registered as a c6Ref value
	Required int  `json:"required_point"`          // 0 none, 1 the single c6Ref point, 2 the []c6Ref point, 3 the func point
	Desc     bool `json:"descending_order,omitempty"`
}

func c06Named(c *core.Ctx) {
	gen := func(yield func(c6NamedCase) bool) {
		for plain := 0; plain <= 2; plain++ {
			for _, named := range []bool{false, true} {
				for req := 0; req <= 3; req++ {
					for _, desc := range []bool{false, true} {
						if !yield(c6NamedCase{plain, named, req, desc}) {
							return
						}
					}
				}
			}
		}
	}
	tRef := reflect.TypeOf(c6Ref(nil))
	tPTA := reflect.TypeOf((*scen.TA)(nil))
	Cases(c, gen, func(c *core.Ctx, cs c6NamedCase) {
		opt := func(i int) string {
			if cs.Required == i {
				return ""
			}
			return ",required=false"
		}
		holder := reflect.New(reflect.StructOf([]reflect.StructField{
			{Name: "Ref", Type: tRef, Tag: reflect.StructTag(fmt.Sprintf(`wire:"%s"`, opt(1)))},
			{Name: "Refs", Type: reflect.SliceOf(tRef), Tag: reflect.StructTag(fmt.Sprintf(`wire:"%s"`, opt(2)))},
			{Name: "Fn", Type: tRef, Tag: reflect.StructTag(fmt.Sprintf(`func:"Comp%s"`, opt(3)))},
			{Name: "P", Type: tPTA, Tag: `wire:",required=false"`},
			{Name: "Ps", Type: reflect.SliceOf(tPTA), Tag: `wire:",required=false"`},
		}))
		var comps []any
		user := map[string]bool{}
		var plain []*scen.TA
		for i := 0; i < cs.Plain; i++ {
			nm := fmt.Sprintf("ta%d", i)
			o := scen.BuildInst(scen.Inst{Typ: "TA", Name: nm}, i).(*scen.TA)
			plain = append(plain, o)
			comps = append(comps, o)
			user[nm] = true
		}
		var named c6Ref
		if cs.Named {
			named = c6Ref(scen.BuildInst(scen.Inst{Typ: "TA", Name: "ref"}, 9).(*scen.TA))
			comps = append(comps, named)
		}
		comps = append(comps, holder.Interface())
		var base []string
		if cs.Desc {
			for k := range user {
				base = append(base, k)
			}
			sort.Sort(sort.Reverse(sort.StringSlice(base)))
		}
		o := scen.Start(scen.StartSpec{Ch: envx.Fixed("", nil), Comps: comps, User: user, Base: base})
		c.S.Evaluations++
		c.S.Programs++
		c.S.States++
		c.S.Nontrivial++
		c.S.Transitions += int64(o.Trace.Calls)
		key := "C06/named-pointer/" + core.Hash(cs)
		if o.Panic != "" || o.Abort != "" || len(o.ChildPanics) > 0 {
			c.Outcome("named-pointer/panic")
			c.Report(key, "panic", fmt.Sprintf("points of a named pointer type (plain *TA components: %d, component of the named type: %v): start-up panicked: %s%s", cs.Plain, cs.Named, o.Panic, o.Abort), cs)
			return
		}
		// the component registered as a c6Ref value may be refused at registration or never be a
		// candidate of anything: what is checked is only that no point receives a component of
		// another pointer type than its own
		h := holder.Elem()
		ref := h.Field(0).Interface().(c6Ref)
		refs := h.Field(1).Interface().([]c6Ref)
		fn := h.Field(2).Interface().(c6Ref)
		p := h.Field(3).Interface().(*scen.TA)
		ps := h.Field(4).Interface().([]*scen.TA)
		isPlain := func(x *scen.TA) bool {
			for _, q := range plain {
				if q == x {
					return true
				}
			}
			return false
		}
		bad := ""
		switch {
		case o.Err != nil:
		case ref != nil && (*scen.TA)(ref) != (*scen.TA)(named):
			bad = fmt.Sprintf("the point of type c6Ref holds %s, a component of type *scen.TA", scen.IdOf((*scen.TA)(ref)))
		case fn != nil && (*scen.TA)(fn) != (*scen.TA)(named):
			bad = fmt.Sprintf("the func point of type c6Ref holds %s, a component of type *scen.TA", scen.IdOf((*scen.TA)(fn)))
		case p != nil && !isPlain(p):
			bad = fmt.Sprintf("the point of type *scen.TA holds %s, which was registered as a value of the named pointer type c6Ref", scen.IdOf(p))
		}
		for _, r := range refs {
			if o.Err == nil && bad == "" && (*scen.TA)(r) != (*scen.TA)(named) {
				bad = fmt.Sprintf("the []c6Ref point holds %s, a component of type *scen.TA", scen.IdOf((*scen.TA)(r)))
			}
		}
		seen := map[*scen.TA]int{}
		for _, r := range ps {
			seen[r]++
			if o.Err == nil && bad == "" && !isPlain(r) {
				bad = fmt.Sprintf("the []*scen.TA point holds %s, which was registered as a value of the named pointer type c6Ref", scen.IdOf(r))
			}
		}
		if o.Err == nil && bad == "" {
			for _, q := range plain {
				if seen[q] != 1 {
					bad = fmt.Sprintf("the []*scen.TA point holds %s %d times, want every *scen.TA component exactly once", scen.IdOf(q), seen[q])
				}
			}
			if cs.Plain > 0 && p == nil {
				bad = "the optional *scen.TA point is empty although *scen.TA components are registered"
			}
		}
		// a required point of the named type without a component of that type cannot be satisfied
		needsErr := cs.Required != 0 && !cs.Named
		switch {
		case bad != "":
			c.Outcome("named-pointer/wrong-type")
			c.Report(key, "inadmissible", fmt.Sprintf("plain *TA components: %d, component registered as c6Ref: %v, required point: %d: %s", cs.Plain, cs.Named, cs.Required, bad), cs)
		case needsErr && o.Err == nil:
			c.Outcome("named-pointer/missing-error")
			c.Report(key, "missing-error", fmt.Sprintf("a required point of the named pointer type c6Ref has no component of exactly that type (plain *TA components: %d) but start-up succeeded", cs.Plain), cs)
		case o.Err != nil && cs.Required == 0 && !cs.Named:
			c.Outcome("named-pointer/spurious-error")
			c.Report(key, "spurious-error", "all points are optional but start-up failed: "+scen.FirstLine(o.Err), cs)
		case o.Err != nil:
			c.Outcome("named-pointer/start-fails")
		default:
			c.Outcome(fmt.Sprintf("named-pointer/ok/ref=%v", ref != nil))
		}
		c.Sample(map[string]any{"case": cs, "error": scen.FirstLine(o.Err)})
	})
}
