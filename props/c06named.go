package props

import (
	"fmt"
	"reflect"
	"sort"
	"strings"

	"github.com/go-kid/ioc/container"

	"verif/internal/core"
	"verif/internal/envx"
	"verif/internal/scen"
)

// Named pointer types: `type c6Ref *scen.TA` is a pointer type of its own. A point declared with it
// is a pointer field whose "exactly that pointer type" no *scen.TA component has; a component that
// was registered as a c6Ref value has exactly that type - and not the type *scen.TA.

type c6Ref *scen.TA

type c6NamedCase struct {
	Plain    int  `json:"plain_TA_components"`     // 0-2 components registered as *scen.TA
	Named    bool `json:"component_of_named_type"` // one component registered as a c6Ref value
	Required int  `json:"required_point"`          // 0 none, 1 the single c6Ref point, 2 the []c6Ref point, 3 the func point
	Desc     bool `json:"descending_order,omitempty"`
}

func c06Named(c *core.Ctx) {
	gen := func(yield func(c6NamedCase) bool) {
		for plain := 0; plain <= 2; plain++ {
			for _, named := range []bool{false, true} {
				for req := 0; req <= 3; req++ {
					for _, desc := range []bool{false, true} {
						if !yield(c6NamedCase{plain, named, req, desc}) {
							return
						}
					}
				}
			}
		}
	}
	tRef := reflect.TypeOf(c6Ref(nil))
	tPTA := reflect.TypeOf((*scen.TA)(nil))
	Cases(c, gen, func(c *core.Ctx, cs c6NamedCase) {
		opt := func(i int) string {
			if cs.Required == i {
				return ""
			}
			return ",required=false"
		}
		holder := reflect.New(reflect.StructOf([]reflect.StructField{
			{Name: "Ref", Type: tRef, Tag: reflect.StructTag(fmt.Sprintf(`wire:"%s"`, opt(1)))},
			{Name: "Refs", Type: reflect.SliceOf(tRef), Tag: reflect.StructTag(fmt.Sprintf(`wire:"%s"`, opt(2)))},
			{Name: "Fn", Type: tRef, Tag: reflect.StructTag(fmt.Sprintf(`func:"Comp%s"`, opt(3)))},
			{Name: "P", Type: tPTA, Tag: `wire:",required=false"`},
			{Name: "Ps", Type: reflect.SliceOf(tPTA), Tag: `wire:",required=false"`},
		}))
		var comps []any
		user := map[string]bool{}
		var plain []*scen.TA
		for i := 0; i < cs.Plain; i++ {
			nm := fmt.Sprintf("ta%d", i)
			o := scen.BuildInst(scen.Inst{Typ: "TA", Name: nm}, i).(*scen.TA)
			plain = append(plain, o)
			comps = append(comps, o)
			user[nm] = true
		}
		var named c6Ref
		if cs.Named {
			named = c6Ref(scen.BuildInst(scen.Inst{Typ: "TA", Name: "ref"}, 9).(*scen.TA))
			comps = append(comps, named)
		}
		comps = append(comps, holder.Interface())
		var base []string
		if cs.Desc {
			for k := range user {
				base = append(base, k)
			}
			sort.Sort(sort.Reverse(sort.StringSlice(base)))
		}
		o := scen.Start(scen.StartSpec{Ch: envx.Fixed("", nil), Comps: comps, User: user, Base: base})
		c.S.Evaluations++
		c.S.Programs++
		c.S.States++
		c.S.Nontrivial++
		c.S.Transitions += int64(o.Trace.Calls)
		key := "C06/named-pointer/" + core.Hash(cs)
		if o.Panic != "" || o.Abort != "" || len(o.ChildPanics) > 0 {
			c.Outcome("named-pointer/panic")
			c.Report(key, "panic", fmt.Sprintf("points of a named pointer type (plain *TA components: %d, component of the named type: %v): start-up panicked: %s%s", cs.Plain, cs.Named, o.Panic, o.Abort), cs)
			return
		}
		// the component registered as a c6Ref value may be refused at registration or never be a
		// candidate of anything: what is checked is only that no point receives a component of
		// another pointer type than its own
		h := holder.Elem()
		ref := h.Field(0).Interface().(c6Ref)
		refs := h.Field(1).Interface().([]c6Ref)
		fn := h.Field(2).Interface().(c6Ref)
		p := h.Field(3).Interface().(*scen.TA)
		ps := h.Field(4).Interface().([]*scen.TA)
		isPlain := func(x *scen.TA) bool {
			for _, q := range plain {
				if q == x {
					return true
				}
			}
			return false
		}
		bad := ""
		switch {
		case o.Err != nil:
		case ref != nil && (*scen.TA)(ref) != (*scen.TA)(named):
			bad = fmt.Sprintf("the point of type c6Ref holds %s, a component of type *scen.TA", scen.IdOf((*scen.TA)(ref)))
		case fn != nil && (*scen.TA)(fn) != (*scen.TA)(named):
			bad = fmt.Sprintf("the func point of type c6Ref holds %s, a component of type *scen.TA", scen.IdOf((*scen.TA)(fn)))
		case p != nil && !isPlain(p):
			bad = fmt.Sprintf("the point of type *scen.TA holds %s, which was registered as a value of the named pointer type c6Ref", scen.IdOf(p))
		}
		for _, r := range refs {
			if o.Err == nil && bad == "" && (*scen.TA)(r) != (*scen.TA)(named) {
				bad = fmt.Sprintf("the []c6Ref point holds %s, a component of type *scen.TA", scen.IdOf((*scen.TA)(r)))
			}
		}
		seen := map[*scen.TA]int{}
		for _, r := range ps {
			seen[r]++
			if o.Err == nil && bad == "" && !isPlain(r) {
				bad = fmt.Sprintf("the []*scen.TA point holds %s, which was registered as a value of the named pointer type c6Ref", scen.IdOf(r))
			}
		}
		if o.Err == nil && bad == "" {
			for _, q := range plain {
				if seen[q] != 1 {
					bad = fmt.Sprintf("the []*scen.TA point holds %s %d times, want every *scen.TA component exactly once", scen.IdOf(q), seen[q])
				}
			}
			if cs.Plain > 0 && p == nil {
				bad = "the optional *scen.TA point is empty although *scen.TA components are registered"
			}
		}
		// a required point of the named type without a component of that type cannot be satisfied
		needsErr := cs.Required != 0 && !cs.Named
		switch {
		case bad != "":
			c.Outcome("named-pointer/wrong-type")
			c.Report(key, "inadmissible", fmt.Sprintf("plain *TA components: %d, component registered as c6Ref: %v, required point: %d: %s", cs.Plain, cs.Named, cs.Required, bad), cs)
		case needsErr && o.Err == nil:
			c.Outcome("named-pointer/missing-error")
			c.Report(key, "missing-error", fmt.Sprintf("a required point of the named pointer type c6Ref has no component of exactly that type (plain *TA components: %d) but start-up succeeded", cs.Plain), cs)
		case o.Err != nil && cs.Required == 0 && !cs.Named:
			c.Outcome("named-pointer/spurious-error")
			c.Report(key, "spurious-error", "all points are optional but start-up failed: "+scen.FirstLine(o.Err), cs)
		case o.Err != nil:
			c.Outcome("named-pointer/start-fails")
		default:
			c.Outcome(fmt.Sprintf("named-pointer/ok/ref=%v", ref != nil))
		}
		c.Sample(map[string]any{"case": cs, "error": scen.FirstLine(o.Err)})
	})
}

// ---- a user scanner that stores every definition back under the name it already has (get /
// modify / put): each component is still one component for every slice-typed point

type c6StoreBack struct {
	only string // "" = every component
}

func (*c6StoreBack) Naming() string { return "zz-c6storeback" }
func (s *c6StoreBack) PostProcessDefinitionRegistry(r container.DefinitionRegistry, c any, name string) error {
	if s.only != "" && name != s.only {
		return nil
	}
	r.RegisterMeta(r.GetMetaOrRegister(name, c))
	return nil
}

type c6ReRegCase struct {
	Pop  []scen.Inst `json:"population"`
	Only string      `json:"stored_back_only,omitempty"`
	Desc bool        `json:"descending_order,omitempty"`
}

type c6ReRegHolder struct {
	PAs  []*scen.TA `wire:",required=false"`
	I1s  []scen.I1  `wire:",required=false"`
	Anys []any      `wire:",required=false"`
	Fn   []scen.I1  `func:"Comp,required=false"`
	One  scen.I1    `wire:",required=false"`
}

func c06ReReg(c *core.Ctx) {
	gen := func(yield func(c6ReRegCase) bool) {
		pops := [][]scen.Inst{
			{{Typ: "TA", Name: "x"}},
			{{Typ: "TA", Name: "x"}, {Typ: "TA", Name: "y"}},
			{{Typ: "TA", Name: "x"}, {Typ: "TB", Name: "y"}},
			{{Typ: "TA"}, {Typ: "TB", Name: "y"}, {Typ: "TD", Name: "z"}},
		}
		for _, pop := range pops {
			for _, only := range []string{"", pop[0].RegName()} {
				for _, desc := range []bool{false, true} {
					if !yield(c6ReRegCase{pop, only, desc}) {
						return
					}
				}
			}
		}
	}
	Cases(c, gen, func(c *core.Ctx, cs c6ReRegCase) {
		h := &c6ReRegHolder{}
		comps := []any{h, &c6StoreBack{only: cs.Only}}
		user := map[string]bool{}
		var base []string
		wantPA, wantI1, wantAll := []string{}, []string{}, []string{}
		for i, in := range cs.Pop {
			o := scen.BuildInst(in, i)
			comps = append(comps, o)
			user[in.RegName()] = true
			base = append(base, in.RegName())
			id := scen.IdOf(o)
			wantAll = append(wantAll, id)
			if in.Typ == "TA" {
				wantPA = append(wantPA, id)
			}
			if scen.Implements["I1"][in.Typ] {
				wantI1 = append(wantI1, id)
			}
		}
		sort.Strings(base)
		if cs.Desc {
			sort.Sort(sort.Reverse(sort.StringSlice(base)))
		}
		o := scen.Start(scen.StartSpec{Ch: envx.Fixed("", nil), Comps: comps, User: user, Base: base})
		c.S.Evaluations++
		c.S.Programs++
		c.S.States++
		c.S.Nontrivial++
		c.S.Transitions += int64(o.Trace.Calls)
		key := "C06/re-registered/" + core.Hash(cs)
		desc := fmt.Sprintf("providers %v, a user scanner stores the definition of %q back under its name (\"\" = of every component)", cs.Pop, cs.Only)
		if !o.OK() {
			c.Outcome("re-registered/start-failed")
			c.Report(key, "spurious-error", desc+": every point is optional but start-up did not succeed: "+scen.FirstLine(o.Err)+o.Panic+o.Abort, cs)
			return
		}
		user4 := func(ids []string) []string { // the universe's providers only (the holder, the scanner and the built-ins are components too)
			var out []string
			for _, id := range ids {
				if id != "?" && id != "-" {
					out = append(out, id)
				}
			}
			sort.Strings(out)
			return out
		}
		for _, f := range []struct {
			name string
			got  []string
			want []string
		}{
			{"[]*TA", user4(scen.IdsOf(h.PAs)), wantPA},
			{"[]I1", user4(scen.IdsOf(h.I1s)), wantI1},
			{"[]any", user4(scen.IdsOf(h.Anys)), wantAll},
		} {
			sort.Strings(f.want)
			if fmt.Sprint(f.got) != fmt.Sprint(f.want) {
				c.Outcome("re-registered/slice-differs")
				c.Report(key, "slice-mismatch", fmt.Sprintf("%s: the %s point holds %v, want every admissible component exactly once: %v", desc, f.name, f.got, f.want), cs)
				return
			}
		}
		seen := map[string]int{}
		for _, id := range scen.IdsOf(h.Fn) {
			seen[id]++
			if seen[id] > 1 {
				c.Outcome("re-registered/slice-differs")
				c.Report(key, "slice-mismatch", fmt.Sprintf("%s: the func-tag slice holds %s twice (%v)", desc, id, scen.IdsOf(h.Fn)), cs)
				return
			}
		}
		c.Outcome(fmt.Sprintf("re-registered/ok/providers=%d", len(cs.Pop)))
		c.Sample(map[string]any{"case": cs})
	})
}

// ---- func points with returns=* select by the presence of the method alone: methods that take
// parameters (also variadic ones) expose it like parameterless ones

type c6FI interface{ FID() string }

type c6FPlain struct{ id string }

func (p *c6FPlain) FID() string    { return p.id }
func (p *c6FPlain) Naming() string { return p.id }
func (p *c6FPlain) Handle() string { return "A" }

type c6FParam struct{ id string }

func (p *c6FParam) FID() string         { return p.id }
func (p *c6FParam) Naming() string      { return p.id }
func (p *c6FParam) Handle(n int) string { return "A" }

type c6FVariadic struct{ id string }

func (p *c6FVariadic) FID() string                { return p.id }
func (p *c6FVariadic) Naming() string             { return p.id }
func (p *c6FVariadic) Handle(xs ...string) string { return "A" }

type c6FNone struct{ id string }

func (p *c6FNone) FID() string    { return p.id }
func (p *c6FNone) Naming() string { return p.id }

type c6FHolder struct {
	All []c6FI `func:"Handle,returns=*,required=false"`
	One c6FI   `func:"Handle,returns=*,required=false"`
}

type c6FuncStarCase struct {
	Mask int  `json:"providers_mask"` // bit 0 plain, 1 with a parameter, 2 variadic, 3 without the method
	Desc bool `json:"descending_order,omitempty"`
}

func c06FuncStar(c *core.Ctx) {
	gen := func(yield func(c6FuncStarCase) bool) {
		for m := 1; m < 16; m++ {
			for _, desc := range []bool{false, true} {
				if !yield(c6FuncStarCase{m, desc}) {
					return
				}
			}
		}
	}
	Cases(c, gen, func(c *core.Ctx, cs c6FuncStarCase) {
		h := &c6FHolder{}
		comps := []any{h}
		user := map[string]bool{}
		var want, base []string
		add := func(id string, o any, has bool) {
			comps = append(comps, o)
			user[id] = true
			base = append(base, id)
			if has {
				want = append(want, id)
			}
		}
		if cs.Mask&1 != 0 {
			add("f-plain", &c6FPlain{"f-plain"}, true)
		}
		if cs.Mask&2 != 0 {
			add("f-param", &c6FParam{"f-param"}, true)
		}
		if cs.Mask&4 != 0 {
			add("f-variadic", &c6FVariadic{"f-variadic"}, true)
		}
		if cs.Mask&8 != 0 {
			add("f-none", &c6FNone{"f-none"}, false)
		}
		sort.Strings(base)
		if cs.Desc {
			sort.Sort(sort.Reverse(sort.StringSlice(base)))
		}
		o := scen.Start(scen.StartSpec{Ch: envx.Fixed("", nil), Comps: comps, User: user, Base: base})
		c.S.Evaluations++
		c.S.Programs++
		c.S.States++
		c.S.Nontrivial++
		c.S.Transitions += int64(o.Trace.Calls)
		key := "C06/func-star/" + core.Hash(cs)
		desc := fmt.Sprintf("func:\"Handle,returns=*\" points, providers %v expose Handle (with and without parameters)", want)
		if !o.OK() {
			c.Outcome("func-star/start-failed")
			c.Report(key, "spurious-error", desc+": every point is optional but start-up did not succeed: "+scen.FirstLine(o.Err)+o.Panic+o.Abort, cs)
			return
		}
		var got []string
		for _, x := range h.All {
			got = append(got, x.FID())
		}
		sort.Strings(got)
		sort.Strings(want)
		switch {
		case fmt.Sprint(got) != fmt.Sprint(want):
			c.Outcome("func-star/slice-differs")
			c.Report(key, "slice-mismatch", fmt.Sprintf("%s: the slice point holds %v", desc, got), cs)
		case len(want) > 0 && h.One == nil:
			c.Outcome("func-star/single-empty")
			c.Report(key, "wrong-or-missing", desc+": the single-valued point is empty", cs)
		case h.One != nil && !strings.Contains(" "+strings.Join(want, " ")+" ", " "+h.One.FID()+" "):
			c.Outcome("func-star/single-inadmissible")
			c.Report(key, "inadmissible", fmt.Sprintf("%s: the single-valued point holds %s", desc, h.One.FID()), cs)
		default:
			c.Outcome(fmt.Sprintf("func-star/ok/%d", len(want)))
		}
		c.Sample(map[string]any{"case": cs})
	})
}
