package props

import (
	"errors"
	"fmt"
	"strings"

	"github.com/go-kid/ioc/container"

	"verif/internal/core"
	"verif/internal/envx"
	"verif/internal/scen"
)

func init() {
	register(&Driver{
		ID:              "C09",
		HangIsViolation: true,
		Technique:       "fault enumeration by deviation-bounded DFS: every program is started on the real container with every reached fault site armed alone and in every reachable pair (callbacks return an injected error), plus every unsatisfiable required / optional point and configuration value as a program variant; oracle: error returned, no panic, termination by budget, no runner invoked; optional-only variants behave like the fault-free program",
		Rule:            "base programs = all labelled 3-node graphs over {none, by-name, slice member} x lazy masks {none, a, c}, one configuration value per node, one user post-processor implementing every callback, one scanner, one factory post-processor, three loaders (only the first carries needed values), two runners; fault sites = the reached callbacks (AfterPropertiesSet, Init, six post-processor callbacks x node, scanner x node, factory post-processor, loaders, runners); deviation bound 2 (all singles, all reachable pairs); variants = {by-name, by-type, func-tag, user-defined component tag, value-tag config, prefix-tag config} x {required, optional} unsatisfiable point on each node; non-trivial = execution with at least one armed fault or unsatisfiable point. Families added in later rounds (look-ups inside Init, retries after an abandoned attempt, user extension points at every Order, several containers, odd names / types / values) are listed per part in this file and described in MANIFEST.json (level_claimed.text) and DESIGN §7",
		Assumptions: []string{
			"faults are errors returned by harness callbacks; panics inside user callbacks are outside the statement",
			"three or more simultaneous faults are not covered",
		},
		Parts: []Part{
			{Name: "faults", Run: c09Faults, QuickS: 90, ThoroughS: 1500},
			{Name: "unsatisfiable", Run: c09Unsat, QuickS: 60, ThoroughS: 600},
			{Name: "wrapped-pointer-candidates", Run: c09WrappedPtr, QuickS: 60, ThoroughS: 300},
		},
	})
}

type c09Case struct {
	scen.GraphProg
	Bound int `json:"bound"`
}

func c09Gen(c *core.Ctx) func(yield func(c09Case) bool) {
	return func(yield func(c09Case) bool) {
		alpha := []int{scen.ENone, scen.EName, scen.ESlice}
		// every shape of error value (causer without cause, empty message, format verbs, ...) at every
		// single fault site of the 2-node programs and of one 3-cycle
		stop := false
		for shape := 1; shape < scen.NumErrShapes && !stop; shape++ {
			run := func(n int, e [][]int) bool {
				p := scen.GraphProg{N: n, Edges: e, Obs: 1, Config: true, Full: true, Faults: true, Kinds: "F", Family: "errshapes", ErrShape: shape}
				if !yield(c09Case{p, 1}) {
					stop = true
				}
				return !stop
			}
			allGraphs(2, alpha, false, func(e [][]int) bool { return run(2, e) })
			if !stop {
				run(3, [][]int{{0, scen.EName, 0}, {0, 0, scen.ESlice}, {scen.EName, 0, 0}})
			}
		}
		if stop {
			return
		}
		// optional points only (optional by-name, optional slices), lazy targets: a candidate that
		// exists but fails to be created is a failure of the start, not an absent candidate
		for _, sliceOpt := range []bool{false, true} {
			al := []int{scen.ENone, scen.ENameOpt}
			if sliceOpt {
				al = []int{scen.ENone, scen.ESlice}
			}
			allGraphs(3, al, false, func(e [][]int) bool {
				for _, lz := range []int{2, 4, 6} {
					p := scen.GraphProg{N: 3, Edges: e, Lazy: []bool{false, lz&2 == 2, lz&4 == 4}, Obs: 1, Config: true, Full: true, Faults: true, Kinds: "F", Family: "n3-optional-points", SliceOpt: sliceOpt}
					if !yield(c09Case{p, 1}) {
						stop = true
						return false
					}
				}
				return true
			})
			if stop {
				return
			}
		}
		// components without any tagged field (no configuration value, isolated nodes have no point at
		// all): the callbacks of user processors run - and may fail - for them like for any other
		allGraphs(3, []int{scen.ENone, scen.EName}, false, func(e [][]int) bool {
			p := scen.GraphProg{N: 3, Edges: e, Obs: 1, Full: true, Faults: true, Kinds: "F", Family: "n3-untagged"}
			if !yield(c09Case{p, 1}) {
				stop = true
				return false
			}
			return true
		})
		if stop {
			return
		}
		allGraphs(3, alpha, false, func(e [][]int) bool {
			masks := []int{0, 1, 4}
			obs := []int{1}
			if c.Thorough() {
				masks = []int{0, 1, 2, 3, 4, 5, 6, 7}
				obs = []int{1, 2}
			}
			for _, lz := range masks {
				lazy := []bool{lz&1 == 1, lz&2 == 2, lz&4 == 4}
				for _, ob := range obs {
					for _, desc := range []bool{false, true} {
						if desc && !c.Thorough() {
							continue
						}
						p := scen.GraphProg{N: 3, Edges: e, Lazy: lazy, Obs: ob, Config: true, Full: true, Faults: true, Kinds: "F", Family: "n3-full"}
						if desc {
							p.Base = []int{2, 1, 0}
						}
						if !yield(c09Case{p, 2}) {
							return false
						}
					}
				}
			}
			return true
		})
	}
}

func c09Faults(c *core.Ctx) {
	first := true
	Cases(c, c09Gen(c), func(c *core.Ctx, cs c09Case) {
		p := &cs.GraphProg
		ref := refGraph(p)
		sites := map[string]bool{}
		body := func(ch *envx.Chooser) {
			o := scen.RunGraph(p, ch)
			c.S.Evaluations++
			c.S.States++
			c.S.Transitions += int64(o.Trace.Calls) + int64(len(ch.Pts))
			for _, s := range o.RT.Reached {
				sites[s] = true
			}
			cc := cs
			cc.Choices = ch.Choices()
			armed := o.RT.Armed
			key := func(kind string) string {
				return "C09/" + kind + "/" + core.Hash(p.N, p.Edges, p.Lazy, p.Obs, p.Base, p.ErrShape, p.SliceOpt, cc.Choices)
			}
			cls := func(s string) string { return strings.SplitN(s, ":", 2)[0] }
			sig := fmt.Sprintf("armed=%d", len(armed))
			if len(armed) > 0 {
				sig += "/" + cls(armed[0])
			}
			switch {
			case o.Panic != "" || len(o.ChildPanics) > 0:
				c.Outcome(sig + "/panic")
				c.Report(key("panic"), "panic", fmt.Sprintf("armed faults %v: Run panicked instead of returning an error: %s %v", armed, o.Panic, o.ChildPanics), cc)
				return
			case o.Abort != "":
				c.Outcome(sig + "/hang")
				c.Report(key("hang"), "non-termination", fmt.Sprintf("armed faults %v: Run did not terminate within its budget: %s", armed, o.Abort), cc)
				return
			}
			runs := 0
			for _, e := range o.RT.Log {
				if strings.HasPrefix(e, "run:") {
					runs++
				}
			}
			if len(armed) == 0 {
				if (o.Err != nil) != ref.mustError {
					c.Outcome(sig + "/unexpected")
					c.Report(key("faultfree"), "spurious-failure", "no fault armed, outcome differs from the reference: "+scen.FirstLine(o.Err), cc)
					return
				}
				c.Outcome(sig + "/as-reference")
				return
			}
			if o.Err == nil {
				c.Outcome(sig + "/swallowed")
				c.Report(key("swallowed"), "error-swallowed", fmt.Sprintf("callbacks %v reported an error but Run returned nil", armed), cc)
				return
			}
			if cls(armed[0]) != "run" && runs > 0 {
				c.Outcome(sig + "/runner-invoked")
				c.Report(key("runner"), "runner-invoked", fmt.Sprintf("initialisation failed at %v, yet %d application runner(s) were invoked", armed, runs), cc)
				return
			}
			c.Outcome(sig + "/error")
		}
		if c.ReplayCase != nil {
			body(envx.Fixed(p.Kinds, cs.Choices))
			return
		}
		if first {
			first = false
			a, b := scen.RunGraph(p, envx.Fixed(p.Kinds, nil)), scen.RunGraph(p, envx.Fixed(p.Kinds, nil))
			if graphSig(a) != graphSig(b) || fmt.Sprint(a.RT.Log) != fmt.Sprint(b.RT.Log) || fmt.Sprint(a.RT.Reached) != fmt.Sprint(b.RT.Reached) {
				panic(envx.Divergence{Msg: "two runs of the same program differ"})
			}
			c.S.DeterminismOK = true
		}
		c.S.Programs++
		st := envx.Explore(envx.Options{Kinds: p.Kinds, Bound: cs.Bound, Stop: c.Expired}, body)
		c.S.Nontrivial += st.Execs - 1
		c.S.Extra["fault_sites_reached"] += int64(len(sites))
		// "every single place where a callback can fail": the callbacks of the user processor that apply
		// to every created component must have been reached (and so armed) for each of them - a place
		// that is silently skipped can never report its error
		if !st.Truncated && !c.Expired() {
			for i := 0; i < p.N; i++ {
				if !ref.created[i] {
					continue
				}
				nm := scen.Name(i, p.N)
				for _, cb := range []string{"ainst", "props", "before", "after"} {
					if site := cb + ":zz-proc0:" + nm; !sites[site] {
						c.Outcome("site-skipped")
						c.Report("C09/skipped/"+core.Hash(p.N, p.Edges, p.Lazy, p.Config, site), "callback-skipped", fmt.Sprintf("graph %v (lazy %v, configuration values: %v): the %s callback of the user post-processor was never invoked for the created component %s - an error it reports there cannot fail the start", p.Edges, p.Lazy, p.Config, cb, nm), cs)
						break
					}
				}
			}
		}
		if st.Truncated {
			c.Cap("exploration of a program truncated by the budget")
		}
		if c.S.Programs%100 == 1 {
			var ss []string
			for s := range sites {
				ss = append(ss, s)
			}
			c.Sample(map[string]any{"program": p, "executions": st.Execs, "fault_sites": len(ss), "sites": strings.Join(ss, " ")})
		}
	})
}

// ---- unsatisfiable points as program variants

type c09UnsatCase struct {
	scen.GraphProg
}

// eager components that are container extension points as well (a factory post-processor, a
// scanner) and carry a required point nothing can satisfy / an Init that fails: they are ordinary
// components too, start-up has to fail
type c9FPPBad struct {
	X scen.Iface `wire:"nobody"`
}

func (*c9FPPBad) Naming() string                                      { return "zz-fppbad" }
func (*c9FPPBad) PostProcessComponentFactory(container.Factory) error { return nil }

type c9ScanBad struct {
	X scen.Iface `wire:"nobody"`
}

func (*c9ScanBad) Naming() string { return "zz-scanbad" }
func (*c9ScanBad) PostProcessDefinitionRegistry(container.DefinitionRegistry, any, string) error {
	return nil
}

type c9FPPInit struct{}

func (*c9FPPInit) Naming() string                                      { return "zz-fppinit" }
func (*c9FPPInit) PostProcessComponentFactory(container.Factory) error { return nil }
func (*c9FPPInit) Init() error {
	return errors.New("init of the factory post-processor component fails")
}

type c9ScanInit struct{}

func (*c9ScanInit) Naming() string { return "zz-scaninit" }
func (*c9ScanInit) PostProcessDefinitionRegistry(container.DefinitionRegistry, any, string) error {
	return nil
}
func (*c9ScanInit) AfterPropertiesSet() error {
	return errors.New("AfterPropertiesSet of the scanner component fails")
}

func c09Unsat(c *core.Ctx) {
	gen := func(yield func(c09UnsatCase) bool) {
		alpha := []int{scen.ENone, scen.EName, scen.ESlice}
		kinds := []string{"name-req", "name-opt", "type-req", "type-opt", "cfg-req", "cfg-opt", "func-req", "func-opt", "custom-req", "custom-opt", "pfx-req", "pfx-opt", "nametype-req", "nametype-opt", "cfgtypes-opt", "cfgempty-opt", "pfxtypes-opt", "namequal-req", "namequal-opt"}
		extKinds := []string{"ext-fpp-req", "ext-scan-req", "ext-fppinit-req", "ext-scaninit-req"}
		allGraphs(3, alpha, false, func(e [][]int) bool {
			for _, lz := range []int{0, 4} {
				lazy := []bool{false, false, lz == 4}
				for node := 0; node < 3; node++ {
					for _, k := range kinds {
						p := scen.GraphProg{N: 3, Edges: e, Lazy: lazy, Obs: 1, Config: true, Full: true, Family: "unsat", Extra: []scen.Extra{{Node: node, Kind: k}}}
						if !yield(c09UnsatCase{p}) {
							return false
						}
					}
				}
				for _, k := range extKinds {
					p := scen.GraphProg{N: 3, Edges: e, Lazy: lazy, Obs: 1, Config: true, Full: true, Family: "unsat-extension-component", Extra: []scen.Extra{{Node: 0, Kind: k}}}
					if !yield(c09UnsatCase{p}) {
						return false
					}
				}
			}
			return true
		})
	}
	Cases(c, gen, func(c *core.Ctx, cs c09UnsatCase) {
		p := &cs.GraphProg
		ref := refGraph(p)
		x := p.Extra[0]
		switch x.Kind {
		case "ext-fpp-req":
			p.Attach = func(*scen.RT) []any { return []any{&c9FPPBad{}} }
		case "ext-scan-req":
			p.Attach = func(*scen.RT) []any { return []any{&c9ScanBad{}} }
		case "ext-fppinit-req":
			p.Attach = func(*scen.RT) []any { return []any{&c9FPPInit{}} }
		case "ext-scaninit-req":
			p.Attach = func(*scen.RT) []any { return []any{&c9ScanInit{}} }
		}
		o := scen.RunGraph(p, envx.Fixed("", nil))
		c.S.Evaluations++
		c.S.Programs++
		c.S.States++
		c.S.Nontrivial++
		c.S.Transitions += int64(o.Trace.Calls)
		key := func(kind string) string { return "C09/" + kind + "/" + core.Hash(p.Edges, p.Lazy, p.Extra) }
		nm := scen.Name(x.Node, p.N)
		runs := 0
		for _, e := range o.RT.Log {
			if strings.HasPrefix(e, "run:") {
				runs++
			}
		}
		switch {
		case o.Panic != "" || len(o.ChildPanics) > 0:
			c.Outcome(x.Kind + "/panic")
			c.Report(key("panic"), "panic", fmt.Sprintf("unsatisfiable %s point on %s: Run panicked: %s", x.Kind, nm, o.Panic), cs)
		case o.Abort != "":
			c.Outcome(x.Kind + "/hang")
			c.Report(key("hang"), "non-termination", fmt.Sprintf("unsatisfiable %s point on %s: %s", x.Kind, nm, o.Abort), cs)
		case strings.HasSuffix(x.Kind, "-req") && ref.created[x.Node]:
			if o.Err == nil {
				c.Outcome(x.Kind + "/swallowed")
				c.Report(key("noerr"), "missing-error", fmt.Sprintf("required %s point on eagerly created %s cannot be satisfied but Run returned nil", x.Kind, nm), cs)
			} else if runs > 0 {
				c.Outcome(x.Kind + "/runner-invoked")
				c.Report(key("runner"), "runner-invoked", fmt.Sprintf("required %s point on %s failed start-up, yet %d runner(s) were invoked", x.Kind, nm, runs), cs)
			} else {
				c.Outcome(x.Kind + "/error")
			}
		default:
			// optional (or on a lazy node nobody needs): same outcome as the program without the point
			q := *p
			q.Extra = nil
			o0 := scen.RunGraph(&q, envx.Fixed("", nil))
			c.S.Evaluations++
			s0, s1 := graphWiringSig(o0), graphWiringSig(o)
			n := o.Nodes[x.Node]
			switch {
			case s0 != s1 || strings.Join(o0.RT.Log, " ") != strings.Join(o.RT.Log, " "):
				c.Outcome(x.Kind + "/differs")
				c.Report(key("optdiff"), "optional-changed-outcome", fmt.Sprintf("unsatisfiable optional %s point on %s changed the outcome: %q (err=%v) vs %q without the point", x.Kind, nm, s1, scen.FirstLine(o.Err), s0), cs)
			case !scen.IsNilSlot(n.S5) || n.M0 != nil || ((x.Kind == "cfg-opt" || x.Kind == "pfx-opt") && n.V0 != "") ||
				n.VD != 0 || n.VL != nil || n.VP != nil || n.VM != nil || n.VS.A != "":
				c.Outcome(x.Kind + "/touched")
				c.Report(key("opttouched"), "optional-touched", fmt.Sprintf("unsatisfiable optional %s point on %s does not hold its zero value", x.Kind, nm), cs)
			default:
				c.Outcome(x.Kind + "/same-as-without")
			}
		}
		if c.S.Programs%900 == 1 {
			c.Sample(map[string]any{"program": p, "outcome": graphSig(o)})
		}
	})
}

// ---- pointer-typed points whose candidate a post-processor replaces by an object of another
// type: the point cannot take it - an error (required) or an empty field (optional), never a panic

func c09WrappedPtr(c *core.Ctx) {
	type wc struct {
		scen.GraphProg
	}
	gen := func(yield func(wc) bool) {
		allGraphs(3, []int{scen.ENone, scen.ESlicePtr, scen.EPtr}, false, func(e [][]int) bool {
			anyPtr := false
			for i := range e {
				for _, k := range e[i] {
					anyPtr = anyPtr || k != scen.ENone
				}
			}
			if !anyPtr {
				return true
			}
			for node := 0; node < 3; node++ {
				for plan := 1; plan < scen.NumWrapPlans; plan++ {
					for _, opt := range []bool{false, true} {
						w := []int{0, 0, 0}
						w[node] = plan
						p := scen.GraphProg{N: 3, Edges: e, Wrap: w, SliceOpt: opt, Obs: 1, Config: true, Full: true, Family: "wrapped-pointer"}
						if !yield(wc{p}) {
							return false
						}
					}
				}
			}
			return true
		})
	}
	Cases(c, gen, func(c *core.Ctx, cs wc) {
		p := &cs.GraphProg
		o := scen.RunGraph(p, envx.Fixed("", nil))
		c.S.Evaluations++
		c.S.Programs++
		c.S.States++
		c.S.Nontrivial++
		c.S.Transitions += int64(o.Trace.Calls)
		key := "C09/wrapped-pointer/" + core.Hash(p.Edges, p.Wrap, p.SliceOpt)
		runs := 0
		for _, e := range o.RT.Log {
			if strings.HasPrefix(e, "run:") {
				runs++
			}
		}
		switch {
		case o.Panic != "" || len(o.ChildPanics) > 0:
			c.Outcome("wrapped-pointer/panic")
			c.Report(key, "panic", fmt.Sprintf("graph %v with pointer-typed points, substitution plan %v (optional slices: %v): Run panicked instead of returning: %s %v", p.Edges, p.Wrap, p.SliceOpt, o.Panic, o.ChildPanics), cs)
		case o.Abort != "":
			c.Outcome("wrapped-pointer/hang")
			c.Report(key, "non-termination", fmt.Sprintf("graph %v, substitution plan %v: %s", p.Edges, p.Wrap, o.Abort), cs)
		case o.Err != nil && runs > 0:
			c.Outcome("wrapped-pointer/runner-invoked")
			c.Report(key, "runner-invoked", fmt.Sprintf("graph %v, substitution plan %v: start-up failed, yet %d runner(s) were invoked", p.Edges, p.Wrap, runs), cs)
		case o.Err != nil:
			c.Outcome("wrapped-pointer/error")
		default:
			// an optional slice that cannot take one of its candidates is left at its zero value: it
			// holds all of its targets or nothing, never a part of them
			for i, n := range o.Nodes {
				want := 0
				for _, k := range p.Edges[i] {
					if k == scen.ESlicePtr {
						want++
					}
				}
				holes := 0
				for _, q := range n.LP {
					if q == nil {
						holes++
					}
				}
				if holes > 0 {
					c.Outcome("wrapped-pointer/partial-slice")
					c.Report(key, "optional-touched", fmt.Sprintf("graph %v, substitution plan %v: the optional []*T point of %s holds a slice of %d with %d empty places (one of its candidates was substituted by an object that does not fit)", p.Edges, p.Wrap, n.Nm, len(n.LP), holes), cs)
					return
				}
				if got := len(n.LP); got != 0 && got != want {
					c.Outcome("wrapped-pointer/partial-slice")
					c.Report(key, "optional-touched", fmt.Sprintf("graph %v, substitution plan %v: the optional []*T point of %s holds %d of its %d targets (one of them was substituted by an object that does not fit)", p.Edges, p.Wrap, n.Nm, got, want), cs)
					return
				}
			}
			c.Outcome("wrapped-pointer/started")
		}
		if c.S.Programs%500 == 1 {
			c.Sample(map[string]any{"case": cs, "error": scen.FirstLine(o.Err)})
		}
	})
}
