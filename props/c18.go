package props

import (
	"fmt"
	"math"
	"reflect"
	"regexp"
	"strings"
	"time"

	"github.com/expr-lang/expr"
	"github.com/go-kid/ioc/app"
	cd "github.com/go-kid/ioc/component_definition"
	"github.com/go-kid/ioc/configure/loader"
	"github.com/go-kid/ioc/container/processors"
	"github.com/go-playground/validator/v10"

	"verif/internal/core"
	"verif/internal/envx"
	"verif/internal/scen"
)

func init() {
	register(&Driver{
		ID:        "C18",
		Technique: "exhaustive enumeration of generated expressions (depth <=2 over literals, placeholders, arithmetic / comparison / boolean / ternary / membership / string operators) x configurations, and of value x constraint pairs (variables and structs, zero values included), one real start each; oracle = direct evaluation of the substituted text with expr, and a fresh validator on the bound value (biconditional)",
		Rule:      "expressions = all generated terms of depth <=2 (thorough: integer terms of depth 3) bound to int / bool / string fields x 3 configurations (one making a modulo-by-zero; every configuration also sets one key to the empty string, and 15 expressions write a default on a configured key: the configured value, empty or not, is what the expression sees); validation = 14 typed values (zero values of int, string, bool included) x 12 constraints (single and joined) as validate arguments on variables, expressions feeding a validated field, and structs bound by prefix with validate struct tags; only pairs the validator library accepts as well-typed; non-trivial = expression containing a placeholder, or a pair whose verdict is 'reject'. Families added in later rounds (look-ups inside Init, retries after an abandoned attempt, user extension points at every Order, several containers, odd names / types / values) are listed per part in this file and described in MANIFEST.json (level_claimed.text) and DESIGN §7",
		Assumptions: []string{
			"constraints that are ill-typed for the value make the validator library itself panic and are outside the domain",
			"division (float results) and expressions longer than depth 2 are not covered",
		},
		Parts: []Part{
			{Name: "expressions", Run: c18Expr, QuickS: 60, ThoroughS: 600},
			{Name: "validation", Run: c18Valid, Workers: 4, QuickS: 60, ThoroughS: 300},
			{Name: "durations", Run: c18Durations, Workers: 4, QuickS: 30, ThoroughS: 60},
		},
	})
}

type c18ExprCase struct {
	Expr string `json:"expr"`
	Typ  string `json:"type"`
	Cfg  int    `json:"cfg"`
	// InSeq: the case was run as part of the sequence of configurations 0,1,2,0 in one process
	// (replay repeats the whole sequence)
	InSeq bool `json:"in_sequence,omitempty"`
	// Via: 0 the expression is written in the tag; 1 the tag is value:"${ex}" and the configuration
	// holds the text "#{expr}" under ex; 2 the tag is prop:"ex" (C16: the tag is processed as if it
	// had been written with the replacement text)
	Via int `json:"via,omitempty"`
}

var c18Cfgs = []map[string]string{
	{"n1": "1", "n2": "2", "s": "a", "k": "1", "e": ""},
	{"n1": "5", "n2": "3", "s": "b", "k": "2", "e": ""},
	{"n1": "1", "n2": "0", "s": "a", "k": "2", "e": ""},
}

var c18Default = regexp.MustCompile(`\$\{zz:([^${}]*)\}`)

// a default written on a key that is configured (key e: configured as the empty string, which is
// a value, not an absence): the configured value is taken
var c18PresentDefault = regexp.MustCompile(`\$\{(n1|n2|s|k|e):[^${}]*\}`)

// c18Subst substitutes innermost placeholders first, until nothing changes (key zz is absent:
// its default is taken).
func c18Subst(e string, cfg map[string]string) string {
	for {
		before := e
		for k, v := range cfg {
			e = strings.ReplaceAll(e, "${"+k+"}", v)
		}
		e = c18Default.ReplaceAllString(e, "$1")
		e = c18PresentDefault.ReplaceAllStringFunc(e, func(m string) string { return cfg[m[2:strings.Index(m, ":")]] })
		if e == before {
			return e
		}
	}
}

func c18Exprs(thorough bool) (ints, bools, strs []string) {
	leaves := []string{"1", "2", "3", "${n1}", "${n2}", "${zz:3}"}
	intOps := []string{"+", "-", "*", "%"}
	cmpOps := []string{"==", "!=", "<", ">="}
	ints = append(ints, leaves...)
	var d1 []string
	for _, a := range leaves {
		for _, b := range leaves {
			for _, o := range intOps {
				d1 = append(d1, "("+a+o+b+")")
			}
		}
	}
	ints = append(ints, d1...)
	lim := len(d1)
	for _, a := range d1[:lim] {
		for _, b := range leaves {
			for _, o := range intOps {
				ints = append(ints, "("+a+o+b+")")
			}
		}
	}
	if thorough {
		// depth 3: every depth-2 term combined once more
		d2 := append([]string{}, ints[6+lim:]...)
		for _, a := range d2 {
			for _, b := range leaves[:4] {
				for _, o := range intOps {
					ints = append(ints, "("+a+o+b+")")
				}
			}
		}
	}
	for _, a := range ints[:6+lim] {
		for _, b := range leaves {
			for _, o := range cmpOps {
				bools = append(bools, a+o+b)
			}
		}
	}
	nb := len(bools)
	for i := 0; i+1 < nb && i < 200; i += 2 {
		bools = append(bools, "("+bools[i]+")&&("+bools[i+1]+")", "("+bools[i]+")||("+bools[i+1]+")", "!("+bools[i]+")")
	}
	// division (always a float in the expression language): whole results, also large ones, must
	// reach an integer field; non-whole results have no integer to be (outside the domain)
	for _, a := range []string{"1", "2", "3", "${n1}", "${n2}", "2000000", "(${n1}*1000000)", "(${n2}*3000000)", "123456789"} {
		for _, b := range []string{"1", "2", "${n1}", "${n2}"} {
			ints = append(ints, "("+a+"/"+b+")", "(("+a+"/"+b+")+1)", "(("+a+"/"+b+")*${n2})")
		}
	}
	// placeholders nested in a placeholder's key or default, inside an expression
	for _, nl := range []string{"${n${k}}", "${zz:${n1}}", "${n${zz:1}}", "${zz:${n${k}}}"} {
		ints = append(ints, nl, "("+nl+"+1)", "("+nl+"*${n2})", "(${n1}-"+nl+")", "("+nl+"+"+nl+")")
		bools = append(bools, nl+">=2", nl+"==${n1}")
	}
	bools = append(bools, "'${s}' in ['a','b']", "'${s}' in ['b']", "'hello' contains '${s}'", "'h'+'${s}' contains 'ha'", "${n1} in [1,2]", "'${s}'=='a'")
	strs = []string{"'a'+'b'", "'${s}'+'b'", "1>2?'x':'y'", "${n1}<${n2}?'lt':'ge'", "'${s}' in ['a','b']?'in':'out'", "'${s}'+'${s}'", "(${n1}+${n2})>2?'${s}':'z'"}
	// string literals that carry an escaped quote of their own kind, a quote of the other kind, braces
	strs = append(strs, `'it\'s ' + '${s}'`, `"say \"hi\" " + '${s}'`, `"it's " + '${s}'`, `'${s}' + 'x\'' + 'y'`, `'a\\' + '${s}'`)
	// defaults on configured keys (one of them configured as the empty string) are not taken
	ints = append(ints, "(${n1:9}+1)", "len('${e:abcd}')", "(len('${e:abcd}')+${n2:7})", "len('${s:abcd}')", "${zz:${n1:9}}")
	bools = append(bools, "'${e:x}'==''", "'${e:x}'=='x'", "'${s:x}'=='${s}'", "len('${e:${s}}')==0", "${n1:9}==${n1}")
	strs = append(strs, "'${e:-dev}'+'!'", "'${s:none}'+'${e:-dev}'", "'${e:x}'==''?'empty':'dflt'", "'<'+'${e}'+'>'", "'${s:${e:q}}'+'.'")
	for _, a := range ints[:6+lim] {
		strs = append(strs, a+">2?'big':'small'")
	}
	for _, nl := range []string{"${n${k}}", "${zz:${n1}}", "${n${zz:1}}", "${zz:${n${k}}}"} {
		strs = append(strs, nl+">1?'big':'small'", "'v'+'"+nl+"'")
	}
	return
}

func c18Expr(c *core.Ctx) {
	gen := func(yield func(c18ExprCase) bool) {
		ints, bools, strs := c18Exprs(c.Thorough())
		// Cfg -1: the three configurations one after the other in the same process, then the first
		// again: the result must follow the configuration of the current container
		for via := 0; via < 3; via++ {
			for _, e := range ints {
				if !yield(c18ExprCase{Expr: e, Typ: "int", Cfg: -1, Via: via}) {
					return
				}
			}
			for _, e := range bools {
				if !yield(c18ExprCase{Expr: e, Typ: "bool", Cfg: -1, Via: via}) {
					return
				}
			}
			for _, e := range strs {
				if !yield(c18ExprCase{Expr: e, Typ: "string", Cfg: -1, Via: via}) {
					return
				}
			}
			// fractional results, some of them very close to a whole number, into a float64 field
			for _, e := range []string{"1.5+${n1}", "${n1}/4", "2+0.0000000004", "${n2}*0.0000000001", "0.1+0.2", "1-0.9999999999", "${n1}*1.0000000001", "${n1}/1000000000", "3-0.0000000001*${n2}", "${n1}+${n2}", "7/2", "0.5*4"} {
				if !yield(c18ExprCase{Expr: e, Typ: "float", Cfg: -1, Via: via}) {
					return
				}
			}
		}
	}
	types := map[string]reflect.Type{"int": reflect.TypeOf(0), "bool": reflect.TypeOf(false), "string": reflect.TypeOf(""), "float": reflect.TypeOf(0.0)}
	Cases(c, gen, func(c *core.Ctx, cs0 c18ExprCase) {
		cfgs := []int{cs0.Cfg}
		if cs0.Cfg < 0 || cs0.InSeq {
			cfgs = []int{0, 1, 2, 0}
		}
		for _, ci := range cfgs {
			cs := cs0
			cs.Cfg = ci
			cs.InSeq = len(cfgs) > 1
			c18ExprOne(c, cs, types)
		}
	})
}

// c18NotAnInt: a float result that no int field can hold exactly.
func c18NotAnInt(v any) bool {
	f, ok := v.(float64)
	return ok && (f != math.Trunc(f) || math.Abs(f) >= 1<<53)
}

func c18ExprOne(c *core.Ctx, cs c18ExprCase, types map[string]reflect.Type) {
	{
		cfg := c18Cfgs[cs.Cfg]
		doc := fmt.Sprintf("n1: %s\nn2: %s\ns: %s\nk: %s\ne: \"\"\n", cfg["n1"], cfg["n2"], cfg["s"], cfg["k"])
		// the tag's value is a Go string literal: backslashes and double quotes of the expression are escaped in it
		tag := fmt.Sprintf(`value:"#{%s}"`, strings.NewReplacer(`\`, `\\`, `"`, `\"`).Replace(cs.Expr))
		if cs.Via > 0 {
			doc += "ex: \"#{" + strings.NewReplacer(`\`, `\\`, `"`, `\"`).Replace(cs.Expr) + "}\"\n"
			tag = []string{"", `value:"${ex}"`, `prop:"ex"`}[cs.Via]
		}
		st := reflect.StructOf([]reflect.StructField{{Name: "X", Type: types[cs.Typ], Tag: reflect.StructTag(tag)}})
		h := reflect.New(st)
		o := scen.Start(scen.StartSpec{Ch: envx.Fixed("", nil), Comps: []any{h.Interface()}, Opts: []app.SettingOption{app.SetConfigLoader(loader.NewRawLoader([]byte(doc)))}})
		want, werr := expr.Eval(c18Subst(cs.Expr, cfg), nil)
		c.S.Evaluations++
		c.S.Programs++
		c.S.States++
		c.S.Transitions++
		if strings.Contains(cs.Expr, "${") {
			c.S.Nontrivial++
		}
		key := "C18/expr/" + core.Hash(cs)
		desc := fmt.Sprintf("value:\"#{%s}\" on a %s field with n1=%s n2=%s s=%s k=%s", cs.Expr, cs.Typ, cfg["n1"], cfg["n2"], cfg["s"], cfg["k"])
		if cs.Via > 0 {
			desc = fmt.Sprintf("%s on a %s field with ex=\"#{%s}\" n1=%s n2=%s s=%s k=%s", tag, cs.Typ, cs.Expr, cfg["n1"], cfg["n2"], cfg["s"], cfg["k"])
		}
		got := h.Elem().Field(0).Interface()
		switch {
		case o.Panic != "" || o.Abort != "":
			c.Outcome("panic")
			c.Report(key, "panic", desc+": "+o.Panic+o.Abort, cs)
		case werr == nil && cs.Typ == "int" && c18NotAnInt(want):
			c.Outcome("outside-domain(result is not an integer)")
		case werr != nil && o.Err == nil:
			c.Outcome("error-swallowed")
			c.Report(key, "error-swallowed", fmt.Sprintf("%s: direct evaluation of the substituted text fails (%v) but start-up succeeded with %#v", desc, werr, got), cs)
		case werr != nil:
			c.Outcome("error-as-direct")
		case o.Err != nil:
			c.Outcome("spurious-error")
			c.Report(key, "spurious-error", fmt.Sprintf("%s: direct evaluation gives %#v but start-up failed: %s", desc, want, scen.FirstLine(o.Err)), cs)
		default:
			ok := false
			switch w := want.(type) {
			case int:
				ok = got == any(w) || (cs.Typ == "float" && got == any(float64(w)))
			case float64:
				if cs.Typ == "float" {
					ok = got == any(w)
					break
				}
				ok = got == any(int(w)) && float64(int(w)) == w
			case bool:
				ok = got == any(w)
			case string:
				ok = got == any(w)
			}
			if !ok {
				c.Outcome("mismatch")
				c.Report(key, "wrong-result", fmt.Sprintf("%s: field holds %#v, evaluating the substituted expression gives %#v", desc, got, want), cs)
				return
			}
			c.Outcome("as-direct/" + cs.Typ + []string{"", "/via-placeholder", "/via-prop"}[cs.Via])
			if c.S.Programs%500 == 1 {
				c.Sample(map[string]any{"case": cs, "substituted": c18Subst(cs.Expr, cfg), "bound": got})
			}
		}
	}
}

// ---- validation

type c18ValCase struct {
	Kind string `json:"kind"` // var expr struct user
	Typ  string `json:"type"` // int string bool
	Text string `json:"text"` // the value text in the tag (or the expression)
	Cons string `json:"constraint"`
	// Binder (kind user): class and Order of the user processor that binds the user-defined
	// configuration tag - always one that runs before the built-in validation
	Binder string `json:"binder,omitempty"`
	// Ptr (kinds var, expr): the field is a pointer to the scalar; the validator is asked about the
	// pointer the field holds (nil when nothing was bound), as the library defines it
	Ptr bool `json:"pointer_field,omitempty"`
}

// user-defined configuration tag `cfg:"<key>,validate=..."`: a tag scanner plus a binder
type c18Scanner struct {
	processors.DefaultTagScanDefinitionRegistryPostProcessor
}

func (*c18Scanner) Naming() string { return "zz-c18scanner" }

type c18Binder struct {
	processors.DefaultInstantiationAwareComponentPostProcessor
	vals map[string]any
}

func (b *c18Binder) PostProcessAfterInstantiation(any, string) (bool, error) { return true, nil }
func (b *c18Binder) PostProcessProperties(props []*cd.Property, _ any, _ string) ([]*cd.Property, error) {
	for _, p := range props {
		if p.Tag != "cfg" {
			continue
		}
		if v, ok := b.vals[p.TagVal]; ok {
			if err := p.Unmarshall(v); err != nil {
				return nil, err
			}
		}
	}
	return nil, nil
}

type c18BinderOrdered struct {
	c18Binder
	o int
}

func (b *c18BinderOrdered) Order() int { return b.o }

type c18BinderPriority struct {
	c18BinderOrdered
}

func (b *c18BinderPriority) Priority() {}

func c18Valid(c *core.Ctx) {
	vals := []struct{ typ, text string }{
		{"int", "0"}, {"int", "1"}, {"int", "5"}, {"int", "10"}, {"int", "-1"},
		{"string", "abc"}, {"string", "abcd"}, {"string", "ab"}, {"string", "x"}, {"string", ""},
		{"bool", "true"}, {"bool", "false"},
		{"float", "0.0"}, {"float", "2.5"},
	}
	cons := []string{"required", "min=3", "max=5", "gt=0", "gte=1", "lt=5", "eq=abc", "ne=5", "len=3", "oneof=abc x 5", "min=2 max=3", "required min=1", "alpha", "number", "omitempty min=3"}
	gen := func(yield func(c18ValCase) bool) {
		for _, v := range vals {
			for _, k := range cons {
				if !yield(c18ValCase{Kind: "var", Typ: v.typ, Text: v.text, Cons: k}) {
					return
				}
				if !yield(c18ValCase{Kind: "var", Typ: v.typ, Text: v.text, Cons: k, Ptr: true}) {
					return
				}
			}
		}
		for _, v := range vals {
			if v.text == "" {
				continue
			}
			for _, k := range cons {
				for _, b := range []string{"ordered:-5", "ordered:1", "ordered:7", "priority:0", "priority:1000"} {
					if !yield(c18ValCase{Kind: "user", Typ: v.typ, Text: v.text, Cons: k, Binder: b}) {
						return
					}
				}
			}
		}
		// structs with a nested struct field that is itself constrained (required on a struct)
		for _, sub := range []string{"absent", "zero", "set"} {
			for _, k := range []string{"required", "omitempty", "required|ptr"} {
				for _, path := range []string{"prefix", "value"} {
					if !yield(c18ValCase{Kind: "nested", Typ: sub, Text: path, Cons: k}) {
						return
					}
				}
			}
		}
		for _, e := range []string{"${n1}-${n1}", "${n1}+${n2}", "${n1}*0", "${n2}-${n1}", "(${n1}+${n2})*2"} {
			for _, k := range []string{"gt=0", "required", "min=1", "max=2", "eq=3", "ne=0"} {
				if !yield(c18ValCase{Kind: "expr", Typ: "int", Text: e, Cons: k}) {
					return
				}
				if !yield(c18ValCase{Kind: "expr", Typ: "int", Text: e, Cons: k, Ptr: true}) {
					return
				}
			}
		}
		// several validated fields on one component (struct-typed by value / by pointer and scalar ones,
		// in both declaration orders): start-up fails iff any of them violates its constraints
		for _, first := range []string{"struct", "pstruct", "scalar"} {
			for _, second := range []string{"struct", "pstruct", "scalar"} {
				for _, bad := range []string{"none", "first", "second", "both"} {
					if !yield(c18ValCase{Kind: "pair", Typ: first + "|" + second, Text: bad}) {
						return
					}
				}
			}
		}
		for _, a := range []string{"", "abc", "abcdef"} {
			for _, n := range []string{"0", "3", "7"} {
				for _, k := range []string{"required|required", "min=3|gt=0", "len=3|max=5", "omitempty,max=3|ne=3"} {
					if !yield(c18ValCase{Kind: "struct", Typ: a + "|" + n, Cons: k}) {
						return
					}
				}
			}
		}
	}
	types := map[string]reflect.Type{"int": reflect.TypeOf(0), "bool": reflect.TypeOf(false), "string": reflect.TypeOf(""), "float": reflect.TypeOf(0.0)}
	v := validator.New(validator.WithRequiredStructEnabled())
	Cases(c, gen, func(c *core.Ctx, cs c18ValCase) {
		key := "C18/validate/" + core.Hash(cs)
		doc := "n1: 1\nn2: 2\n"
		var h reflect.Value
		var bound any
		var reject, illTyped bool
		verdict := func(f func() error) {
			defer func() {
				if recover() != nil {
					illTyped = true
				}
			}()
			reject = f() != nil
		}
		var extra []any
		switch cs.Kind {
		case "var", "expr", "user":
			text := cs.Text
			if cs.Kind == "expr" {
				r, err := expr.Eval(c18Subst(cs.Text, c18Cfgs[0]), nil)
				if err != nil {
					return
				}
				bound = r
				text = "#{" + cs.Text + "}"
			} else {
				switch cs.Typ {
				case "int":
					var x int
					fmt.Sscan(cs.Text, &x)
					bound = x
				case "float":
					var x float64
					fmt.Sscan(cs.Text, &x)
					bound = x
				case "bool":
					bound = cs.Text == "true"
				default:
					bound = cs.Text
				}
			}
			ft := types[cs.Typ]
			if cs.Ptr {
				ft = reflect.PointerTo(ft)
				pv := reflect.Zero(ft) // nothing bound: the field stays a nil pointer
				if text != "" {
					bv := reflect.ValueOf(bound)
					if f, ok := bound.(float64); ok && cs.Typ == "int" {
						bv = reflect.ValueOf(int(f))
					}
					pv = reflect.New(types[cs.Typ])
					pv.Elem().Set(bv.Convert(types[cs.Typ]))
				}
				bound = pv.Interface()
			}
			verdict(func() error { return v.Var(bound, strings.ReplaceAll(cs.Cons, " ", ",")) })
			tag := fmt.Sprintf(`value:"%s,validate=%s"`, text, cs.Cons)
			if text == "" {
				tag = fmt.Sprintf(`value:"${nokey:},required=false,validate=%s"`, cs.Cons)
			}
			if cs.Kind == "user" {
				tag = fmt.Sprintf(`cfg:"the.key,validate=%s"`, cs.Cons)
				sc := &c18Scanner{}
				sc.NodeType, sc.Tag, sc.Required = cd.PropertyTypeConfiguration, "cfg", true
				var order int
				cls := strings.SplitN(cs.Binder, ":", 2)
				fmt.Sscan(cls[1], &order)
				bo := c18BinderOrdered{c18Binder{vals: map[string]any{"the.key": bound}}, order}
				if cls[0] == "priority" {
					extra = []any{sc, &c18BinderPriority{bo}}
				} else {
					extra = []any{sc, &bo}
				}
			}
			h = reflect.New(reflect.StructOf([]reflect.StructField{{Name: "X", Type: ft, Tag: reflect.StructTag(tag)}}))
		case "pair":
			kinds := strings.SplitN(cs.Typ, "|", 2)
			inner := reflect.StructOf([]reflect.StructField{{Name: "N", Type: types["int"], Tag: `yaml:"n" validate:"min=3"`}})
			var fields []reflect.StructField
			for i, k := range kinds {
				invalid := cs.Text == "both" || (i == 0 && cs.Text == "first") || (i == 1 && cs.Text == "second")
				n := 5
				if invalid {
					n = 1
				}
				reject = reject || invalid
				name := fmt.Sprintf("F%d", i)
				switch k {
				case "struct":
					doc += fmt.Sprintf("s%d:\n  n: %d\n", i, n)
					fields = append(fields, reflect.StructField{Name: name, Type: inner, Tag: reflect.StructTag(fmt.Sprintf(`prefix:"s%d,validate"`, i))})
				case "pstruct":
					doc += fmt.Sprintf("s%d:\n  n: %d\n", i, n)
					fields = append(fields, reflect.StructField{Name: name, Type: reflect.PointerTo(inner), Tag: reflect.StructTag(fmt.Sprintf(`prefix:"s%d,validate"`, i))})
				default:
					doc += fmt.Sprintf("v%d: %d\n", i, n)
					fields = append(fields, reflect.StructField{Name: name, Type: types["int"], Tag: reflect.StructTag(fmt.Sprintf(`value:"${v%d},validate=min=3"`, i))})
				}
			}
			bound = cs.Typ + " with " + cs.Text + " violating min=3"
			h = reflect.New(reflect.StructOf(fields))
		case "nested":
			ptr := strings.HasSuffix(cs.Cons, "|ptr")
			cons := strings.TrimSuffix(cs.Cons, "|ptr")
			subT := reflect.StructOf([]reflect.StructField{{Name: "X", Type: types["int"], Tag: `yaml:"x"`}})
			subField := reflect.StructField{Name: "Sub", Type: subT, Tag: reflect.StructTag(fmt.Sprintf(`yaml:"sub" validate:"%s"`, cons))}
			if ptr {
				subField.Type = reflect.PointerTo(subT)
			}
			inner := reflect.StructOf([]reflect.StructField{{Name: "A", Type: types["string"], Tag: `yaml:"a" validate:"required"`}, subField})
			ref := reflect.New(inner).Elem()
			ref.Field(0).SetString("x")
			doc += "sect:\n  a: x\n"
			switch cs.Typ {
			case "zero":
				doc += "  sub:\n    x: 0\n"
				if ptr {
					ref.Field(1).Set(reflect.New(subT))
				}
			case "set":
				doc += "  sub:\n    x: 4\n"
				if ptr {
					ref.Field(1).Set(reflect.New(subT))
					ref.Field(1).Elem().Field(0).SetInt(4)
				} else {
					ref.Field(1).Field(0).SetInt(4)
				}
			}
			bound = ref.Interface()
			verdict(func() error { return validator.New(validator.WithRequiredStructEnabled()).Struct(bound) })
			tag := `prefix:"sect,validate"`
			if cs.Text == "value" {
				tag = `value:"${sect},validate"`
			}
			h = reflect.New(reflect.StructOf([]reflect.StructField{{Name: "X", Type: inner, Tag: reflect.StructTag(tag)}}))
		case "struct":
			av := strings.SplitN(cs.Typ, "|", 2)
			ks := strings.SplitN(cs.Cons, "|", 2)
			inner := reflect.StructOf([]reflect.StructField{
				{Name: "A", Type: types["string"], Tag: reflect.StructTag(fmt.Sprintf(`yaml:"a" validate:"%s"`, ks[0]))},
				{Name: "N", Type: types["int"], Tag: reflect.StructTag(fmt.Sprintf(`yaml:"n" validate:"%s"`, ks[1]))},
			})
			doc += fmt.Sprintf("sect:\n  a: %q\n  n: %s\n", av[0], av[1])
			ref := reflect.New(inner).Elem()
			ref.Field(0).SetString(av[0])
			var n int
			fmt.Sscan(av[1], &n)
			ref.Field(1).SetInt(int64(n))
			bound = ref.Interface()
			verdict(func() error { return validator.New(validator.WithRequiredStructEnabled()).Struct(bound) })
			h = reflect.New(reflect.StructOf([]reflect.StructField{{Name: "X", Type: inner, Tag: `prefix:"sect,validate"`}}))
		}
		if illTyped {
			c.Outcome("outside-domain(ill-typed constraint)")
			return
		}
		o := scen.Start(scen.StartSpec{Ch: envx.Fixed("", nil), Comps: append([]any{h.Interface()}, extra...), Opts: []app.SettingOption{app.SetConfigLoader(loader.NewRawLoader([]byte(doc)))}})
		c.S.Evaluations++
		c.S.Programs++
		c.S.States++
		c.S.Transitions++
		if cs.Kind == "user" && o.Err == nil && !reflect.DeepEqual(h.Elem().Field(0).Interface(), bound) {
			c.Outcome("user-binding-lost")
			c.Report(key, "wrong-value", fmt.Sprintf("field bound by a user processor (%s) holds %#v after the start, the binder set %#v", cs.Binder, h.Elem().Field(0).Interface(), bound), cs)
			return
		}
		if reject {
			c.S.Nontrivial++
		}
		desc := fmt.Sprintf("%s validation, bound value %#v, constraint %q", cs.Kind, bound, cs.Cons)
		if cs.Ptr {
			desc = fmt.Sprintf("%s validation on a pointer field, bound to %s, constraint %q", cs.Kind, c18Deref(bound), cs.Cons)
			// the field must hold what the reference was asked about
			if got := c18Deref(h.Elem().Field(0).Interface()); o.Err == nil && got != c18Deref(bound) {
				c.Outcome("pointer-binding-differs")
				c.Report(key, "wrong-value", fmt.Sprintf("%s: the field holds %s after the start", desc, got), cs)
				return
			}
		}
		if cs.Kind == "user" {
			desc += " (user-defined configuration tag bound by a user processor, " + cs.Binder + ")"
		}
		switch {
		case o.Panic != "" || o.Abort != "":
			c.Outcome("panic")
			c.Report(key, "panic", desc+": "+o.Panic+o.Abort, cs)
		case reject && o.Err == nil:
			c.Outcome("violation-accepted")
			c.Report(key, "violation-accepted", desc+": a fresh validator rejects the bound value but start-up succeeded", cs)
		case !reject && o.Err != nil:
			c.Outcome("valid-rejected")
			c.Report(key, "valid-rejected", desc+": a fresh validator accepts the bound value but start-up failed: "+scen.FirstLine(o.Err), cs)
		case reject:
			c.Outcome("rejected-as-validator")
		default:
			c.Outcome("accepted-as-validator")
		}
		if c.S.Programs%60 == 1 {
			c.Sample(map[string]any{"case": cs, "bound": fmt.Sprintf("%#v", bound), "validator_rejects": reject, "start_failed": o.Err != nil})
		}
	})
}

func c18Deref(p any) string {
	v := reflect.ValueOf(p)
	if v.Kind() != reflect.Pointer {
		return fmt.Sprintf("%#v", p)
	}
	if v.IsNil() {
		return "a nil pointer"
	}
	return fmt.Sprintf("a pointer to %#v", v.Elem().Interface())
}

// ---- expression results that feed a unit-carrying text: durations

type c18DurCase struct {
	Expr string `json:"expr"`
	Unit string `json:"unit"`
	Cfg  int    `json:"cfg"`
	Ptr  bool   `json:"pointer_field,omitempty"`
}

func c18Durations(c *core.Ctx) {
	gen := func(yield func(c18DurCase) bool) {
		exprs := []string{"${n1}", "${n1}+${n2}", "${n1}*1.5", "${n2}*0.5", "0.5", "0.25*${n1}", "1.5+${n2}", "${n1}*1500", "(${n1}+${n2})*0.1", "${n${k}}*2.5", "2-0.5"}
		for _, e := range exprs {
			for _, u := range []string{"s", "ms", "h", "m"} {
				for cfg := range c18Cfgs {
					for _, ptr := range []bool{false, true} {
						if !yield(c18DurCase{e, u, cfg, ptr}) {
							return
						}
					}
				}
			}
		}
	}
	Cases(c, gen, func(c *core.Ctx, cs c18DurCase) {
		cfg := c18Cfgs[cs.Cfg]
		doc := fmt.Sprintf("n1: %s\nn2: %s\ns: %s\nk: %s\ne: \"\"\n", cfg["n1"], cfg["n2"], cfg["s"], cfg["k"])
		ft := reflect.TypeOf(time.Duration(0))
		if cs.Ptr {
			ft = reflect.PointerTo(ft)
		}
		st := reflect.StructOf([]reflect.StructField{{Name: "X", Type: ft, Tag: reflect.StructTag(fmt.Sprintf(`value:"#{%s}%s"`, cs.Expr, cs.Unit))}})
		h := reflect.New(st)
		o := scen.Start(scen.StartSpec{Ch: envx.Fixed("", nil), Comps: []any{h.Interface()}, Opts: []app.SettingOption{app.SetConfigLoader(loader.NewRawLoader([]byte(doc)))}})
		c.S.Evaluations++
		c.S.Programs++
		c.S.States++
		c.S.Transitions++
		c.S.Nontrivial++
		key := "C18/duration/" + core.Hash(cs)
		desc := fmt.Sprintf("value:\"#{%s}%s\" on a duration field (pointer %v) with n1=%s n2=%s k=%s", cs.Expr, cs.Unit, cs.Ptr, cfg["n1"], cfg["n2"], cfg["k"])
		res, rerr := expr.Eval(c18Subst(cs.Expr, cfg), nil)
		var want time.Duration
		var werr error
		if rerr == nil {
			want, werr = time.ParseDuration(fmt.Sprint(res) + cs.Unit)
		}
		var got time.Duration
		if v := h.Elem().Field(0); cs.Ptr {
			if !v.IsNil() {
				got = v.Elem().Interface().(time.Duration)
			}
		} else {
			got = v.Interface().(time.Duration)
		}
		switch {
		case o.Panic != "" || o.Abort != "":
			c.Outcome("duration/panic")
			c.Report(key, "panic", desc+": "+o.Panic+o.Abort, cs)
		case rerr != nil || werr != nil:
			c.Outcome("duration/outside-domain") // the result's text form is not a duration: not decided here
		case o.Err != nil:
			c.Outcome("duration/spurious-error")
			c.Report(key, "spurious-error", fmt.Sprintf("%s: the expression gives %v, i.e. %v, but start-up failed: %s", desc, res, want, scen.FirstLine(o.Err)), cs)
		case got != want:
			c.Outcome("duration/mismatch")
			c.Report(key, "wrong-result", fmt.Sprintf("%s: field holds %v; the expression gives %v, i.e. %v", desc, got, res, want), cs)
		default:
			c.Outcome("duration/as-direct")
		}
		if c.S.Programs%60 == 1 {
			c.Sample(map[string]any{"case": cs, "bound": got.String()})
		}
	})
}
