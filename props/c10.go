package props

import (
	"encoding/json"
	"fmt"
	"github.com/go-kid/ioc/container"
	"regexp"
	"sort"
	"strings"

	"github.com/go-kid/ioc/configure"
	"github.com/go-kid/ioc/container/factory"
	"github.com/go-kid/ioc/container/processors"
	"github.com/go-kid/ioc/container/support"
	"github.com/go-kid/ioc/util/vsync"

	"verif/internal/core"
	"verif/internal/envx"
	"verif/internal/scen"
)

func init() {
	register(&Driver{
		ID:        "C10",
		Technique: "differential exhaustive exploration: every program (qualifier/primary populations, self-candidate holders, dependency graphs) is started under every permutation of registry iteration order and registration order, plus every single (thorough: pair of) non-default per-call iteration answer; the order-independent outcome signature must be identical across all executions of a program; scan-phase goroutine schedules are explored by the controlled scheduler",
		Rule:      "programs = C08 families (a)(b)(c) x all provider permutations; holders that implement their own field's interface with 1-2 other candidates x all permutations of (holder, providers); labelled graphs n<=3 x all 6 base orders x all 6 registration orders; per-call order deviations (bound 1) on 2-provider programs; non-trivial = program with >= 2 candidates for some point or >= 2 components; tied points (several equally ranked candidates) are masked. Families added in later rounds (look-ups inside Init, retries after an abandoned attempt, user extension points at every Order, several containers, odd names / types / values) are listed per part in this file and described in MANIFEST.json (level_claimed.text) and DESIGN §7",
		Assumptions: []string{
			"a point is tied exactly when the C08 ranking leaves several candidates; its value may vary within that set",
			"more than three providers / more than two per-call order deviations are not covered",
		},
		Parts: []Part{
			{Name: "resolve-orders", Run: func(c *core.Ctx) { resolveRun(c, "C10") }, QuickS: 420, ThoroughS: 1200},
			{Name: "self-candidate", Run: c10Self, QuickS: 40, ThoroughS: 300},
			{Name: "typed-cycle-orders", Run: c10Typed, QuickS: 60, ThoroughS: 600},
			{Name: "graph-orders", Run: c10Graphs, QuickS: 60, ThoroughS: 900},
			{Name: "percall-deviations", Run: c10Dev, QuickS: 90, ThoroughS: 2400},
			{Name: "scan-schedules", Run: c10Scan, QuickS: 60, ThoroughS: 900},
			{Name: "ordered-participants", Run: c10Ordered, QuickS: 60, ThoroughS: 600},
			{Name: "whole-start-schedules", Run: c10Whole, QuickS: 60, ThoroughS: 900},
			{Name: "processor-creation-order", Run: c10ProcOrder, Workers: 4, QuickS: 30, ThoroughS: 120},
			{Name: "factory-processor-view", Run: c10FPPView, Workers: 4, QuickS: 30, ThoroughS: 120},
			{Name: "failing-runner-orders", Run: c10FailingRunner, Workers: 4, QuickS: 30, ThoroughS: 120},
			{Name: "optional-pointer-slices", Run: c10OptPtrSlices, Workers: 4, QuickS: 60, ThoroughS: 120},
		},
	})
}

// ---- holders that are candidates for their own field

type selfH struct {
	scen.QBase
	F  scen.IQ   `wire:""`
	FS []scen.IQ `wire:",required=false"`
}

type c10SelfCase struct {
	Pop         []scen.QProv `json:"providers"`
	HolderNamed bool         `json:"holder_named"`
	Perm        []int        `json:"perm,omitempty"` // order of (providers..., holder)
}

func c10Self(c *core.Ctx) {
	gen := func(yield func(c10SelfCase) bool) {
		for _, pop := range qPops(2) {
			for _, hn := range []bool{false, true} {
				if !yield(c10SelfCase{Pop: pop, HolderNamed: hn}) {
					return
				}
			}
		}
	}
	run := func(cs c10SelfCase, perm []int) (string, string, *scen.StartObs) {
		h := &selfH{QBase: scen.QBase{Id: "holder"}}
		hname := scen.DefaultName("selfH")
		hname = "verif/props/selfH"
		if cs.HolderNamed {
			h.Name = "zholder"
			hname = "zholder"
		}
		comps := make([]any, 0, len(cs.Pop)+1)
		names := make([]string, 0, len(cs.Pop)+1)
		user := map[string]bool{}
		for i, p := range cs.Pop {
			comps = append(comps, scen.BuildQ(p, i))
			names = append(names, p.RegName(i))
		}
		comps = append(comps, h)
		names = append(names, hname)
		var base []string
		var reg []any
		for _, i := range perm {
			base = append(base, names[i])
			reg = append(reg, comps[i])
			user[names[i]] = true
		}
		o := scen.Start(scen.StartSpec{Ch: envx.Fixed("", nil), Comps: reg, User: user, Base: base})
		if o.Panic != "" || o.Abort != "" {
			return "panic", "start-up panicked: " + o.Panic + o.Abort, o
		}
		if o.Err != nil {
			return "fail", "other candidates exist but start-up failed: " + scen.FirstLine(o.Err), o
		}
		_, allowed := qRef(cs.Pop, qField{Kind: "single"})
		got := scen.IdOf(h.F)
		viol := ""
		if got == "holder" {
			viol = "the field is wired to its own holder"
		}
		ok := false
		for _, a := range allowed {
			if got == fmt.Sprintf("x%d", a) {
				ok = true
			}
		}
		if !ok && viol == "" {
			viol = fmt.Sprintf("F holds %s, admissible %v", got, allowed)
		}
		fs := scen.IdsOf(h.FS)
		sort.Strings(fs)
		for _, e := range fs {
			if e == "holder" {
				viol = "the slice contains its own holder"
			}
		}
		sig := "ok|" + got
		if len(allowed) > 1 {
			sig = "ok|tie"
		}
		return sig + "|" + strings.Join(fs, ","), viol, o
	}
	Cases(c, gen, func(c *core.Ctx, cs c10SelfCase) {
		n := len(cs.Pop) + 1
		if c.ReplayCase != nil {
			s0, _, _ := run(cs, scen.NthPerm(n, 0))
			s1, v, _ := run(cs, cs.Perm)
			c.S.Evaluations += 2
			if s0 != s1 || v != "" {
				c.Report("C10/replay", "order-dependent", fmt.Sprintf("%q vs %q %s", s0, s1, v), cs)
			}
			return
		}
		c.S.Programs++
		c.S.Nontrivial++
		first := ""
		for k := 0; k < factorialInt(n); k++ {
			perm := scen.NthPerm(n, k)
			sig, viol, o := run(cs, perm)
			c.S.Evaluations++
			c.S.States++
			c.S.Transitions += int64(o.Trace.Calls)
			c.Outcome("self/" + strings.SplitN(sig, "|", 2)[0])
			if k == 0 {
				first = sig
			}
			cc := cs
			cc.Perm = perm
			if sig != first {
				c.Report("C10/self/"+core.Hash(cs.Pop, cs.HolderNamed), "order-dependent",
					fmt.Sprintf("holder implements its own field's interface, providers %v: outcome %q under the identity order, %q under order %v of (providers..., holder)", cs.Pop, first, sig, perm), cc)
				break
			}
			if viol != "" {
				c.Report("C10/selfref/"+core.Hash(cs.Pop, cs.HolderNamed), "order-dependent", fmt.Sprintf("providers %v order %v: %s", cs.Pop, perm, viol), cc)
				break
			}
		}
		if c.S.Programs%40 == 1 {
			c.Sample(map[string]any{"providers": fmt.Sprint(cs.Pop), "holder_named": cs.HolderNamed, "orders_run": factorialInt(n), "signature": first})
		}
	})
}

// ---- dependency graphs under every base order x registration order

type c10GraphCase struct {
	N     int     `json:"n"`
	Edges [][]int `json:"edges"`
	Wrap  []int   `json:"wrap,omitempty"`
	Base  []int   `json:"base,omitempty"`
	Reg   []int   `json:"reg,omitempty"`
}

func graphWiringSig(o *scen.GraphObs) string {
	if !o.OK() {
		if o.Panic != "" || o.Abort != "" {
			return "crash"
		}
		return "fail"
	}
	var sb strings.Builder
	sb.WriteString("ok")
	for _, n := range o.Nodes {
		sb.WriteString("|" + n.Nm + ":")
		for _, f := range []string{"S0", "S1", "S2", "S3", "S4", "S5", "P0", "P1", "P2", "P3"} {
			if b := scen.NodeOf(n.Slot(f)); b != nil && !scen.IsNilSlot(n.Slot(f)) {
				sb.WriteString(f + "=" + b.Nm + "/" + version(n.Slot(f)) + ",")
			}
		}
		var l []string
		for _, e := range n.L0 {
			if b := scen.NodeOf(e); b != nil {
				l = append(l, b.Nm)
			}
		}
		sort.Strings(l)
		sb.WriteString("L0=" + strings.Join(l, "+"))
	}
	return sb.String()
}

func c10Graphs(c *core.Ctx) {
	gen := func(yield func(c10GraphCase) bool) {
		ok := true
		allGraphs(2, []int{scen.ENone, scen.EName, scen.ENameOpt, scen.ESlice}, true, func(e [][]int) bool {
			ok = yield(c10GraphCase{N: 2, Edges: e})
			return ok
		})
		if !ok {
			return
		}
		allGraphs(3, []int{scen.ENone, scen.EName, scen.ESlice}, false, func(e [][]int) bool {
			ok = yield(c10GraphCase{N: 3, Edges: e})
			return ok
		})
		if !ok {
			return
		}
		// substitution makes the creation order observable: the order must not depend on enumeration
		allGraphs(2, []int{scen.ENone, scen.EName, scen.ESlice}, false, func(e [][]int) bool {
			for w := 1; w < scen.NumWrapPlans*scen.NumWrapPlans; w++ {
				if ok = yield(c10GraphCase{N: 2, Edges: e, Wrap: []int{w % scen.NumWrapPlans, w / scen.NumWrapPlans}}); !ok {
					return false
				}
			}
			return true
		})
		if !ok {
			return
		}
		allGraphs(3, []int{scen.ENone, scen.EName}, false, func(e [][]int) bool {
			for node := 0; node < 3; node++ {
				for plan := 1; plan < scen.NumWrapPlans; plan++ {
					w := []int{0, 0, 0}
					w[node] = plan
					if ok = yield(c10GraphCase{N: 3, Edges: e, Wrap: w}); !ok {
						return false
					}
				}
			}
			return true
		})
		if !ok || !c.Thorough() {
			return
		}
		allGraphs(3, []int{scen.ENone, scen.ETypeQ, scen.ESlicePtr, scen.ENameOpt}, false, func(e [][]int) bool {
			ok = yield(c10GraphCase{N: 3, Edges: e})
			return ok
		})
	}
	Cases(c, gen, func(c *core.Ctx, cs c10GraphCase) {
		run := func(base, reg []int) (string, *scen.GraphObs) {
			p := &scen.GraphProg{N: cs.N, Edges: cs.Edges, Base: base, Reg: reg, Wrap: cs.Wrap}
			o := scen.RunGraph(p, envx.Fixed("", nil))
			return graphWiringSig(o), o
		}
		if c.ReplayCase != nil {
			id := scen.NthPerm(cs.N, 0)
			s0, _ := run(id, id)
			s1, _ := run(cs.Base, cs.Reg)
			c.S.Evaluations += 2
			if s0 != s1 {
				c.Report("C10/replay", "order-dependent", fmt.Sprintf("%q vs %q", s0, s1), cs)
			}
			return
		}
		c.S.Programs++
		if nontrivialGraph(&scen.GraphProg{N: cs.N, Edges: cs.Edges}) {
			c.S.Nontrivial++
		}
		first := ""
		ps := perms(cs.N)
		for bi, base := range ps {
			for ri, reg := range ps {
				sig, o := run(base, reg)
				c.S.Evaluations++
				c.S.States++
				c.S.Transitions += int64(o.Trace.Calls)
				c.Outcome("graph/" + strings.SplitN(sig, "|", 2)[0])
				if bi == 0 && ri == 0 {
					first = sig
					continue
				}
				if sig != first {
					cc := cs
					cc.Base, cc.Reg = base, reg
					c.Report("C10/graph/"+core.Hash(cs.N, cs.Edges, cs.Wrap), "order-dependent",
						fmt.Sprintf("graph %v wrap plan %v: outcome %q under identity orders, %q under iteration order %v / registration order %v", cs.Edges, cs.Wrap, first, sig, base, reg), cc)
					return
				}
			}
		}
		if c.S.Programs%200 == 1 {
			c.Sample(map[string]any{"edges": cs.Edges, "orders_run": len(ps) * len(ps), "signature": first})
		}
	})
}

// ---- per-call order deviations: one iteration of one registry enumeration answers differently

func c10Dev(c *core.Ctx) {
	gen := func(yield func(resolveCase) bool) {
		max := 2
		if c.Thorough() {
			max = 3
		}
		for _, pop := range qPops(max) {
			if len(pop) < 2 {
				continue
			}
			for _, qa := range qualArgs {
				fs := []qField{{Kind: "single", Qual: qa, Opt: true}, {Kind: "slice", Qual: qa, Opt: true}, {Kind: "single", Qual: ""}}
				if !yield(resolveCase{Pop: pop, Fields: fs, Family: "dev"}) {
					return
				}
			}
		}
	}
	bound := 1
	if c.Thorough() {
		bound = 2
	}
	Cases(c, gen, func(c *core.Ctx, cs resolveCase) {
		id := scen.NthPerm(len(cs.Pop), 0)
		if c.ReplayCase != nil {
			e0, _ := resolveOnce(c, cs, id, envx.Fixed("P", nil))
			e1, _ := resolveOnce(c, cs, id, envx.Fixed("P", cs.Choices))
			c.S.Evaluations += 2
			if e0.sig != e1.sig {
				c.Report("C10/replay", "order-dependent", fmt.Sprintf("%q vs %q", e0.sig, e1.sig), cs)
			}
			return
		}
		c.S.Programs++
		c.S.Nontrivial++
		first, have := "", false
		st := envx.Explore(envx.Options{Kinds: "P", Bound: bound, Stop: c.Expired}, func(ch *envx.Chooser) {
			ex, o := resolveOnce(c, cs, id, ch)
			c.S.Evaluations++
			c.S.States++
			c.S.Transitions += int64(o.Trace.Calls) + int64(len(ch.Pts))
			c.Outcome("dev/" + strings.SplitN(ex.sig, "|", 2)[0])
			if !have {
				first, have = ex.sig, true
				return
			}
			if ex.sig != first {
				cc := cs
				cc.Choices = ch.Choices()
				c.Report("C10/dev/"+core.Hash(cs.Pop, cs.Fields), "order-dependent",
					fmt.Sprintf("providers %v fields %v: outcome %q with default iteration answers, %q when enumeration answers %v deviate", cs.Pop, cs.Fields, first, ex.sig, cc.Choices), cc)
			}
		})
		if st.Truncated {
			c.Cap("exploration of a program truncated by the budget")
		}
		if c.S.Programs%100 == 1 {
			c.Sample(map[string]any{"providers": fmt.Sprint(cs.Pop), "fields": cs.Fields, "executions": st.Execs, "choice_points": st.Points})
		}
	})
}

// ---- goroutine schedules of the parallel scanning phase: the definition registry must end up
// the same (names, properties per definition) on every schedule and under every spawn order

type c10ScanComp struct {
	Nm  string
	Dep scen.Iface   `wire:""`
	All []scen.Iface `wire:",required=false"`
	V   string       `value:"${k:d}"`
	P   string       `prop:"k:d"`
}

func (x *c10ScanComp) ID() string     { return x.Nm }
func (x *c10ScanComp) Naming() string { return x.Nm }

// c10FailScan is a user scanner that registers every component and fails on the masked ones.
type c10FailScan struct{ fail [4]bool }

func (f *c10FailScan) Naming() string { return "zscan" }
func (f *c10FailScan) PostProcessDefinitionRegistry(r container.DefinitionRegistry, c any, name string) error {
	r.GetMetaOrRegister(name, c)
	if len(name) == 2 && name[0] == 's' && f.fail[name[1]-'0'] {
		return fmt.Errorf("scan failed on %s", name)
	}
	return nil
}

type c10ScanCase struct {
	Fail   int   `json:"user_scanner_fails_on_mask,omitempty"` // > 0: a user scanner instead of the built-in ones
	N      int   `json:"components"`
	Order  []int `json:"spawn_order"`
	Bound  int   `json:"preemption_bound"`
	Script []int `json:"schedule,omitempty"`
}

func c10Scan(c *core.Ctx) {
	gen := func(yield func(c10ScanCase) bool) {
		for n := 1; n <= 3; n++ {
			bound := 3 - n // n+1 goroutines per scanner (the scanner is a component itself)
			if c.Thorough() {
				bound++
			}
			for k := 0; k < factorialInt(n); k++ {
				if !yield(c10ScanCase{N: n, Order: scen.NthPerm(n, k), Bound: bound}) {
					return
				}
			}
		}
		// a user scanner that fails on a subset: failure or success is the same on every schedule
		for n := 1; n <= 2; n++ {
			for fm := 1; fm < 1<<n; fm++ {
				for k := 0; k < factorialInt(n); k++ {
					if !yield(c10ScanCase{N: n, Fail: fm, Order: scen.NthPerm(n, k), Bound: 3 - n}) {
						return
					}
				}
			}
		}
	}
	var reference string
	Cases(c, gen, func(c *core.Ctx, cs c10ScanCase) {
		rank := map[string]int{}
		for pos, i := range cs.Order {
			rank[fmt.Sprintf("s%d", i)] = pos
		}
		sig := ""
		body := func() {
			reg := support.NewRegistry()
			for i := 0; i < cs.N; i++ {
				reg.RegisterSingleton(&c10ScanComp{Nm: fmt.Sprintf("s%d", i)})
			}
			if cs.Fail > 0 {
				fs := &c10FailScan{}
				for i := 0; i < cs.N; i++ {
					fs.fail[i] = cs.Fail>>i&1 == 1
				}
				reg.RegisterSingleton(fs)
			} else {
				reg.RegisterSingleton(processors.NewDependencyAwarePostProcessors())
				if cs.N == 1 {
					reg.RegisterSingleton(processors.NewValueAwarePostProcessors()) // a second scanner phase
				}
			}
			f := factory.Default()
			f.SetRegistry(reg)
			f.SetConfigure(configure.NewConfigure())
			err := f.PrepareComponents()
			var parts []string
			for _, m := range f.GetDefinitionRegistry().GetMetas() {
				var props []string
				for _, p := range m.GetAllProperties() {
					props = append(props, p.ID())
				}
				sort.Strings(props)
				parts = append(parts, m.Name()+"{"+strings.Join(props, ";")+"}")
			}
			sort.Strings(parts)
			sig = fmt.Sprintf("err=%v ", err != nil) + strings.Join(parts, " ")
		}
		first := ""
		oracle := func(e *scen.SchedExec) {
			c.S.Evaluations++
			c.S.States++
			cc := cs
			cc.Script = e.Script
			// addresses differ between executions: compare with pointers masked
			s := maskPointers(sig)
			if first == "" {
				first = s
			}
			key := "C10/scan/" + core.Hash(cs.N, cs.Fail)
			switch {
			case e.Deadlock || len(e.ChildPanics) > 0:
				c.Outcome("scan/crash")
				c.Report(key, "order-dependent", fmt.Sprintf("scanning %d components: deadlock=%v panics=%v under schedule %v", cs.N, e.Deadlock, e.ChildPanics, e.Script), cc)
			case s != first:
				c.Outcome("scan/differs")
				c.Report(key, "order-dependent", fmt.Sprintf("scanning %d components, spawn order %v: the definition registry differs between schedules:\n  %s\nvs under schedule %v:\n  %s", cs.N, cs.Order, first, e.Script, s), cc)
			default:
				c.Outcome(fmt.Sprintf("scan/n=%d/same-registry", cs.N))
			}
		}
		vsync.KeyRank = rank
		defer func() { vsync.KeyRank = nil }()
		if c.ReplayCase != nil {
			scen.ReplaySched(nil, body)
			first = maskPointers(sig)
			oracle(scen.ReplaySched(cs.Script, body))
			return
		}
		c.S.Programs++
		c.S.Nontrivial++
		st := scen.ExploreSched(cs.Bound, 0, c.Expired, body, oracle)
		c.S.Transitions += st.Points
		if st.Truncated {
			c.Cap("scan schedule exploration truncated by the budget")
		}
		// every spawn order of one component count must give the same registry as well
		if cs.N == 3 && cs.Fail == 0 {
			if reference == "" {
				reference = first
			} else if reference != first {
				c.Report("C10/scan-order/"+core.Hash(cs.N), "order-dependent", fmt.Sprintf("spawn order %v gives another definition registry than the first spawn order", cs.Order), cs)
			}
		}
		c.Sample(map[string]any{"config": cs, "schedules": st.Execs, "registry": first})
	})
}

var pointerRe = regexp.MustCompile(`0x[0-9a-f]+`)

func maskPointers(s string) string { return pointerRe.ReplaceAllString(s, "0xPTR") }

// ---- ordered participants (post-processors, runners, loaders) without ties: their invocation
// sequence must not depend on registration / enumeration order

func c10Ordered(c *core.Ctx) {
	type oc struct {
		Seq  []int  `json:"symbols"`
		Site string `json:"site"`
		Perm []int  `json:"perm,omitempty"`
	}
	gen := func(yield func(oc) bool) {
		for _, site := range []string{"runners", "loaders", "processors"} {
			ok := true
			seqs(3, 11, func(s []int) bool {
				// no ties: all symbols distinct and at most one unordered participant; canonical (sorted) sequences only
				for i := range s {
					for j := i + 1; j < len(s); j++ {
						if s[i] >= s[j] {
							return true
						}
					}
				}
				if len(s) < 2 {
					return true
				}
				ok = yield(oc{Seq: s, Site: site})
				return ok
			})
			if !ok {
				return
			}
		}
	}
	prefix := map[string]string{"runners": "run:", "loaders": "load:", "processors": "before:"}
	Cases(c, gen, func(c *core.Ctx, cs oc) {
		run := func(perm []int) string {
			_, shared, o := c12RunSite(c12Case{Seq: cs.Seq, Site: cs.Site, Perm: perm})
			c.S.Evaluations++
			c.S.States++
			c.S.Transitions += int64(o.Trace.Calls)
			if !o.OK() {
				return "start-failed:" + scen.FirstLine(o.Err) + o.Panic + o.Abort
			}
			var seq []string
			for _, e := range shared.Log {
				if strings.HasPrefix(e, prefix[cs.Site]) {
					seq = append(seq, strings.SplitN(strings.TrimPrefix(e, prefix[cs.Site]), ":", 2)[0])
				}
			}
			return strings.Join(seq, ",")
		}
		n := len(cs.Seq)
		if c.ReplayCase != nil {
			a, b := run(scen.NthPerm(n, 0)), run(cs.Perm)
			if a != b {
				c.Report("C10/replay", "order-dependent", a+" vs "+b, cs)
			}
			return
		}
		c.S.Programs++
		c.S.Nontrivial++
		first := ""
		for k := 0; k < factorialInt(n); k++ {
			perm := scen.NthPerm(n, k)
			sig := run(perm)
			if k == 0 {
				first = sig
				continue
			}
			if sig != first {
				var symn []string
				for _, s := range cs.Seq {
					symn = append(symn, c12Sym(s))
				}
				cc := cs
				cc.Perm = perm
				c.Outcome("ordered/differs")
				c.Report("C10/ordered/"+core.Hash(cs.Seq, cs.Site), "order-dependent",
					fmt.Sprintf("%s %v (no two equally ranked): invocation sequence %q under the identity registration order, %q under order %v", cs.Site, symn, first, sig, perm), cc)
				return
			}
		}
		c.Outcome("ordered/" + cs.Site + "/same-sequence")
		if c.S.Programs%60 == 1 {
			c.Sample(map[string]any{"site": cs.Site, "symbols": cs.Seq, "sequence": first, "orders_run": factorialInt(n)})
		}
	})
}

// ---- whole starts with the goroutine schedule of the scanning phase deviating once: every
// scheduling point of a complete start (all built-in scanners, all components) is a choice point

func c10Whole(c *core.Ctx) {
	gen := func(yield func(c10GraphCase) bool) {
		e2 := mkEdges(2)
		e2[0][1], e2[1][0] = scen.EName, scen.ESlice
		if !yield(c10GraphCase{N: 2, Edges: e2}) {
			return
		}
		e3 := mkEdges(3)
		e3[0][1], e3[1][2], e3[2][0] = scen.EName, scen.ETypeQ, scen.ESlice
		if !yield(c10GraphCase{N: 3, Edges: e3}) {
			return
		}
		e3b := mkEdges(3)
		e3b[0][1], e3b[0][2], e3b[1][2], e3b[2][1] = scen.ESlice, scen.ESlice, scen.EPtr, scen.ENameOpt
		yield(c10GraphCase{N: 3, Edges: e3b})
	}
	// every worker takes every program and a share of its alternatives (the sharding is inside)
	var all []c10GraphCase
	if c.ReplayCase != nil {
		var one c10GraphCase
		json.Unmarshal(c.ReplayCase, &one)
		all = []c10GraphCase{one}
	} else {
		gen(func(x c10GraphCase) bool { all = append(all, x); return true })
	}
	run := func(c *core.Ctx, cs c10GraphCase) {
		core.Tick()
		p := &scen.GraphProg{N: cs.N, Edges: cs.Edges, Kinds: "S", Config: true, Obs: 1}
		first := ""
		if c.Shard == 0 {
			c.S.Programs++
			c.S.Nontrivial++
		}
		// shard the level-1 subtrees of the exploration over the workers
		root := scen.RunGraph(p, envx.Fixed("S", nil))
		first = graphWiringSig(root) + "|" + strings.Join(root.RT.Log, " ")
		pts := root.RT.Ch.Pts
		idx := 0
		for i, pt := range pts {
			for alt := 1; alt < pt.N; alt++ {
				idx++
				if !c.Mine(idx) {
					continue
				}
				if idx&15 == 0 && c.Expired() {
					return
				}
				pre := make([]int, i+1)
				pre[i] = alt
				o := scen.RunGraph(p, envx.Fixed("S", pre))
				c.S.Evaluations++
				c.S.States++
				c.S.Transitions += int64(len(o.RT.Ch.Pts))
				sig := graphWiringSig(o) + "|" + strings.Join(o.RT.Log, " ")
				if sig != first {
					cc := cs
					c.Outcome("whole/differs")
					c.Report("C10/whole/"+core.Hash(cs.N, cs.Edges), "order-dependent", fmt.Sprintf("whole start of graph %v: with the goroutine schedule of the scanning phase deviating at point %d (alternative %d of %d) the outcome is %q, default schedule %q", cs.Edges, i, alt, pt.N, sig, first), cc)
					return
				}
				c.Outcome("whole/same")
			}
		}
		c.Sample(map[string]any{"edges": cs.Edges, "scheduling_choice_points": len(pts), "alternatives": idx})
	}
	for _, cs := range all {
		run(c, cs)
	}
}

// ---- two ordered user post-processors, the later-ordered one depends on a component the
// earlier-ordered one substitutes: which version it gets must not depend on the order in which
// the registries enumerate the two processors

func c10ProcOrder(c *core.Ctx) {
	type pc struct {
		Edges [][]int `json:"edges"`
		Plan  int     `json:"plan"`
		Base  []int   `json:"base"`
	}
	gen := func(yield func(pc) bool) {
		allGraphs(2, []int{scen.ENone, scen.EName, scen.ESlice}, false, func(e [][]int) bool {
			for _, plan := range []int{scen.WrapAfter, scen.WrapBefore, scen.WrapEarlyAfterSame} {
				for _, base := range [][]int{{0, 1}, {1, 0}} {
					if !yield(pc{e, plan, base}) {
						return false
					}
				}
			}
			return true
		})
	}
	Cases(c, gen, func(c *core.Ctx, cs pc) {
		run := func(first bool) string {
			p := &scen.GraphProg{N: 2, Edges: cs.Edges, Wrap: []int{cs.Plan, 0}, Base: cs.Base, Config: true, Obs: 1, ProcNode: true, OrderedProcs: true, ProcNodeFirst: first}
			o := scen.RunGraph(p, envx.Fixed("", nil))
			c.S.Evaluations++
			c.S.States++
			c.S.Transitions += int64(o.Trace.Calls)
			dep := "-"
			if o.ProcNode != nil {
				dep = o.ProcNode.SeenDepType
			}
			return graphWiringSig(o) + "|processor sees " + dep
		}
		a, b := run(false), run(true)
		c.S.Programs++
		c.S.Nontrivial++
		if a != b {
			c.Outcome("procorder/differs")
			c.Report("C10/procorder/"+core.Hash(cs), "order-dependent", fmt.Sprintf("graph %v, node a substituted (plan %d) by a processor of Order 100, a second processor of Order 200 depends on a: outcome %q when the registries enumerate the first processor first, %q when they enumerate the second one first", cs.Edges, cs.Plan, a, b), cs)
			return
		}
		c.Outcome("procorder/same")
		c.Sample(map[string]any{"case": cs, "outcome": a})
	})
}

// ---- what a user factory post-processor sees of the registered components must not depend on where
// the singleton registry's enumeration meets the processor itself

type c10FPP struct {
	name  string
	guard string
	seen  []string
	user  map[string]bool
}

func (p *c10FPP) Naming() string { return p.name }
func (p *c10FPP) PostProcessComponentFactory(f container.Factory) error {
	p.seen = nil
	for n := range f.GetRegisteredComponents() {
		if p.user[n] {
			p.seen = append(p.seen, n)
		}
	}
	sort.Strings(p.seen)
	if p.guard != "" {
		if _, ok := f.GetRegisteredComponents()[p.guard]; !ok {
			return fmt.Errorf("component %s must be registered", p.guard)
		}
	}
	return nil
}

type c10Plain struct{ n string }

func (p *c10Plain) Naming() string { return p.n }

func c10FPPView(c *core.Ctx) {
	type fc struct {
		FPPName string `json:"processor_name"`
		Guard   string `json:"guarded_component,omitempty"`
		Two     bool   `json:"second_processor,omitempty"`
	}
	gen := func(yield func(fc) bool) {
		for _, nm := range []string{"0-fpp", "k-fpp", "zz-fpp"} {
			for _, g := range []string{"", "a", "m", "z"} {
				for _, two := range []bool{false, true} {
					if !yield(fc{nm, g, two}) {
						return
					}
				}
			}
		}
	}
	Cases(c, gen, func(c *core.Ctx, cs fc) {
		names := []string{"a", "m", "z", cs.FPPName}
		if cs.Two {
			names = append(names, "n-fpp2")
		}
		user := map[string]bool{}
		for _, n := range names {
			user[n] = true
		}
		outcomes := map[string][]int{}
		first := ""
		n := len(names)
		for k := 0; k < factorialInt(n); k++ {
			perm := scen.NthPerm(n, k)
			fpp := &c10FPP{name: cs.FPPName, guard: cs.Guard, user: user}
			byName := map[string]any{"a": &c10Plain{"a"}, "m": &c10Plain{"m"}, "z": &c10Plain{"z"}, cs.FPPName: fpp}
			var fpp2 *c10FPP
			if cs.Two {
				fpp2 = &c10FPP{name: "n-fpp2", user: user}
				byName["n-fpp2"] = fpp2
			}
			var base []string
			var reg []any
			for _, i := range perm {
				base = append(base, names[i])
				reg = append(reg, byName[names[i]])
			}
			o := scen.Start(scen.StartSpec{Ch: envx.Fixed("", nil), Comps: reg, User: user, Base: base})
			c.S.Evaluations++
			c.S.States++
			c.S.Transitions += int64(o.Trace.Calls)
			sig := fmt.Sprintf("started=%v sees=%v", o.OK(), fpp.seen)
			if fpp2 != nil {
				sig += fmt.Sprintf(" second-sees=%v", fpp2.seen)
			}
			if o.Panic != "" || o.Abort != "" {
				sig = "panic: " + o.Panic + o.Abort
			}
			if k == 0 {
				first = sig
			}
			if _, ok := outcomes[sig]; !ok {
				outcomes[sig] = perm
			}
		}
		c.S.Programs++
		c.S.Nontrivial++
		key := "C10/fppview/" + core.Hash(cs)
		want := append([]string{}, names...)
		sort.Strings(want)
		switch {
		case len(outcomes) > 1:
			var other string
			for s := range outcomes {
				if s != first {
					other = s
				}
			}
			c.Outcome("fpp-view/order-dependent")
			c.Report(key, "order-dependent", fmt.Sprintf("components a, m, z and a user factory post-processor %q (guarding %q): %q under the identity enumeration order, %q under order %v", cs.FPPName, cs.Guard, first, other, outcomes[other]), cs)
		case !strings.Contains(first, fmt.Sprintf("sees=%v", want)):
			c.Outcome("fpp-view/incomplete")
			c.Report(key, "order-dependent", fmt.Sprintf("a user factory post-processor %q sees %s of the registered components %v", cs.FPPName, first, want), cs)
		default:
			c.Outcome("fpp-view/complete-under-every-order")
		}
		c.Sample(map[string]any{"case": cs, "orders": factorialInt(n), "outcome": first})
	})
}

// ---- equally ranked runners of which one fails: whether the start succeeds must not depend on
// the order in which the registries enumerate them

func c10FailingRunner(c *core.Ctx) {
	type rc struct {
		N     int  `json:"runners"`
		Fail  int  `json:"failing_runner"`
		Equal bool `json:"equal_order_instead_of_none"`
	}
	gen := func(yield func(rc) bool) {
		for n := 2; n <= 4; n++ {
			for f := 0; f < n; f++ {
				for _, eq := range []bool{false, true} {
					if !yield(rc{n, f, eq}) {
						return
					}
				}
			}
		}
	}
	Cases(c, gen, func(c *core.Ctx, cs rc) {
		outcomes := map[string][]int{}
		first := ""
		for k := 0; k < factorialInt(cs.N); k++ {
			perm := scen.NthPerm(cs.N, k)
			rt := &scen.RT{}
			names := make([]string, cs.N)
			comps := make([]any, cs.N)
			user := map[string]bool{}
			for i := 0; i < cs.N; i++ {
				names[i] = fmt.Sprintf("r%d", i)
				user[names[i]] = true
				p := scen.Part{Nm: names[i], O: 7, RT: rt, Fail: i == cs.Fail}
				if cs.Equal {
					comps[i] = &scen.RunO{Part: p}
				} else {
					comps[i] = &scen.RunN{Part: p}
				}
			}
			var base []string
			var reg []any
			for _, i := range perm {
				base = append(base, names[i])
				reg = append(reg, comps[i])
			}
			o := scen.Start(scen.StartSpec{Ch: envx.Fixed("", nil), Comps: reg, User: user, Base: base})
			c.S.Evaluations++
			c.S.States++
			c.S.Transitions += int64(o.Trace.Calls)
			sig := fmt.Sprintf("start-fails=%v", o.Err != nil)
			if o.Panic != "" || o.Abort != "" {
				sig = "panic: " + o.Panic + o.Abort
			}
			if k == 0 {
				first = sig
			}
			if _, ok := outcomes[sig]; !ok {
				outcomes[sig] = perm
			}
		}
		c.S.Programs++
		c.S.Nontrivial++
		key := "C10/failing-runner/" + core.Hash(cs)
		switch {
		case len(outcomes) > 1:
			var other string
			for s := range outcomes {
				if s != first {
					other = s
				}
			}
			c.Outcome("failing-runner/order-dependent")
			c.Report(key, "order-dependent", fmt.Sprintf("%d equally ranked runners, runner %d returns an error: %q under the identity enumeration order, %q under order %v", cs.N, cs.Fail, first, other, outcomes[other]), cs)
		case first != "start-fails=true":
			c.Outcome("failing-runner/swallowed")
			c.Report(key, "order-dependent", fmt.Sprintf("%d equally ranked runners, runner %d returns an error: %s under every order", cs.N, cs.Fail, first), cs)
		default:
			c.Outcome("failing-runner/fails-under-every-order")
		}
		c.Sample(map[string]any{"case": cs, "orders": factorialInt(cs.N)})
	})
}

// ---- optional pointer-typed slices of which one candidate is substituted by an object of another
// type: what such a point ends up holding is the same under every enumeration order

func c10OptPtrSlices(c *core.Ctx) {
	type oc struct {
		Edges [][]int `json:"edges"`
		Wrap  []int   `json:"wrap"`
	}
	gen := func(yield func(oc) bool) {
		allGraphs(3, []int{scen.ENone, scen.ESlicePtr}, false, func(e [][]int) bool {
			any := false
			for i := range e {
				for _, k := range e[i] {
					any = any || k != scen.ENone
				}
			}
			if !any {
				return true
			}
			for node := 0; node < 3; node++ {
				for _, plan := range []int{scen.WrapAfter, scen.WrapBefore} {
					w := []int{0, 0, 0}
					w[node] = plan
					if !yield(oc{e, w}) {
						return false
					}
				}
			}
			return true
		})
	}
	Cases(c, gen, func(c *core.Ctx, cs oc) {
		sigs := map[string][]int{}
		first := ""
		for k, base := range perms(3) {
			p := &scen.GraphProg{N: 3, Edges: cs.Edges, Wrap: cs.Wrap, SliceOpt: true, Base: base, Obs: 1, Family: "optional-pointer-slices"}
			o := scen.RunGraph(p, envx.Fixed("", nil))
			c.S.Evaluations++
			c.S.States++
			c.S.Transitions += int64(o.Trace.Calls)
			sig := graphWiringSig(o)
			if o.Panic != "" || o.Abort != "" {
				sig = "panic/abort"
			}
			if k == 0 {
				first = sig
			}
			if _, ok := sigs[sig]; !ok {
				sigs[sig] = base
			}
		}
		c.S.Programs++
		c.S.Nontrivial++
		if len(sigs) > 1 {
			var other string
			for s := range sigs {
				if s != first {
					other = s
				}
			}
			c.Outcome("optional-pointer-slices/order-dependent")
			c.Report("C10/optptr/"+core.Hash(cs), "order-dependent", fmt.Sprintf("graph %v with optional []*T points, substitution plan %v: outcome %q under the identity order, %q under order %v", cs.Edges, cs.Wrap, first, other, sigs[other]), cs)
			return
		}
		c.Outcome("optional-pointer-slices/same-under-every-order")
		if c.S.Programs%50 == 1 {
			c.Sample(map[string]any{"case": cs, "outcome": first})
		}
	})
}
