package props

import (
	"fmt"
	"strings"

	"verif/internal/core"
	"verif/internal/envx"
	"verif/internal/scen"
)

func init() {
	register(&Driver{
		ID:        "C05",
		Technique: "exhaustive enumeration of dependency graphs x lazy/eager assignments x observing post-processor sets x iteration orders, each a real start; event-log oracle (exactly-once lifecycle sequence, population before before-init, dependencies initialised first, lazy only on demand)",
		Rule:      "programs = labelled 3-node graphs over {none, by-name, slice member} x lazy flag per node x {0,1,2} observing processors x base order, one configuration slot per node; non-trivial = has an edge and (a lazy node or a cycle or fan-in >= 2). Families added in later rounds (look-ups inside Init, retries after an abandoned attempt, user extension points at every Order, several containers, odd names / types / values) are listed per part in this file and described in MANIFEST.json (level_claimed.text) and DESIGN §7",
		Assumptions: []string{
			"post-processors in this family only observe (a substituting processor legitimately moves the init calls to the substitute: C03's territory)",
			"n <= 3 (thorough: 4 over two edge kinds)",
		},
		Parts: []Part{
			{Name: "lifecycle", Run: c05Run, QuickS: 160, ThoroughS: 1500},
			{Name: "failed-attempt-and-retry", Run: c05Retry, QuickS: 120, ThoroughS: 300},
			{Name: "lazy-candidates", Run: c05Lazy, Workers: 4, QuickS: 30, ThoroughS: 60},
			{Name: "lazy-processors", Run: c05LazyProc, Workers: 2, QuickS: 30, ThoroughS: 60},
			{Name: "panicking-init", Run: c05PanicInit, Workers: 1, QuickS: 30, ThoroughS: 60},
		},
	})
}

type c05Case struct {
	scen.GraphProg
	Bound int `json:"bound"`
}

func c05Gen(c *core.Ctx) func(yield func(c05Case) bool) {
	return func(yield func(c05Case) bool) {
		ok := true
		quickLazy := false // quick tier: deviations only with at most one lazy node
		procNode := false
		bystander := 0
		var shortcut []int // nodes whose creation a processor short-cuts from before-instantiation
		fam := func(n int, alphabet []int, orders [][]int, name string, bound int, obsList []int) {
			allGraphs(n, alphabet, false, func(e [][]int) bool {
				for lz := 0; lz < 1<<n; lz++ {
					if quickLazy && lz&(lz-1) != 0 {
						continue
					}
					lazy := make([]bool, n)
					for i := range lazy {
						lazy[i] = lz>>i&1 == 1
					}
					for _, obs := range obsList {
						for _, base := range orders {
							p := scen.GraphProg{N: n, Edges: e, Lazy: lazy, Obs: obs, Base: base, Config: true, Family: name, ProcNode: procNode, Bystander: bystander}
							if shortcut != nil {
								p.Wrap = shortcut
							}
							if bound > 0 {
								p.Kinds = "P"
							}
							if ok = yield(c05Case{p, bound}); !ok {
								return false
							}
						}
					}
				}
				return true
			})
		}
		three := []int{scen.ENone, scen.EName, scen.ESlice}
		fam(3, three, [][]int{{0, 1, 2}, {2, 1, 0}}, "n3", 0, []int{0, 1, 2})
		if !ok {
			return
		}
		fam(2, three, [][]int{{0, 1}}, "n2-dev", 1, []int{1})
		if !ok {
			return
		}
		fam(3, three, perms(3), "n3-allorders", 0, []int{1})
		if !ok {
			return
		}
		for bystander = 1; bystander <= 2; bystander++ { // default-embedding processors ordered first
			fam(3, three, [][]int{{0, 1, 2}}, "n3-bystander", 0, []int{1})
			if !ok {
				return
			}
		}
		bystander = 0
		procNode = true // a post-processor that is itself a component with injection points
		fam(3, three, [][]int{{0, 1, 2}, {2, 1, 0}}, "n3-procnode", 0, []int{0, 1})
		procNode = false
		if !ok {
			return
		}
		// programmatic look-ups during initialisation: node i looks node j up inside its Init (also
		// when i has no injection point of its own and j depends back on i)
		allGraphs(3, []int{scen.ENone, scen.EName}, false, func(e [][]int) bool {
			for _, lz := range []int{0, 2, 4, 6} {
				for i := 0; i < 3; i++ {
					for j := 0; j < 3; j++ {
						if i == j {
							continue
						}
						p := scen.GraphProg{N: 3, Edges: e, Lazy: []bool{false, lz&2 == 2, lz&4 == 4}, Obs: 1, Base: []int{0, 1, 2}, Config: true, Family: "n3-initlookup", InitLookup: [][]int{{i, j}}}
						if ok = yield(c05Case{p, 0}); !ok {
							return false
						}
					}
				}
			}
			return true
		})
		if !ok {
			return
		}
		// a processor answers the component itself from before-instantiation for a subset of nodes
		quickLazy = true
		for m := 1; m < 8; m++ {
			shortcut = []int{m & 1 * scen.WrapInstSelf, m >> 1 & 1 * scen.WrapInstSelf, m >> 2 & 1 * scen.WrapInstSelf}
			obs := []int{1, 2}
			if !c.Thorough() {
				obs = []int{2}
			}
			fam(3, three, [][]int{{0, 1, 2}}, "n3-shortcut", 0, obs)
			if !ok {
				return
			}
		}
		shortcut = nil
		// one node replaced by a decorator after (or before) its initialisation, acyclic graphs (a
		// substitute on a cycle makes the start fail, C03): the decorator forwards the init methods it
		// inherits - the component still passes through them exactly once
		quickLazy = true
		for node := 0; node < 3 && ok; node++ {
			for _, plan := range []int{scen.WrapAfter, scen.WrapBefore} {
				w := []int{0, 0, 0}
				w[node] = plan
				allGraphs(3, three, false, func(e [][]int) bool {
					for i := range e {
						for j := range e[i] {
							if i >= j && e[i][j] != 0 {
								return true // acyclic: edges only from lower to higher index
							}
						}
					}
					for _, base := range [][]int{{0, 1, 2}, {2, 1, 0}} {
						p := scen.GraphProg{N: 3, Edges: e, Lazy: []bool{false, false, false}, Obs: 1, Base: base, Config: true, Family: "n3-decorated", Wrap: w}
						if ok = yield(c05Case{p, 0}); !ok {
							return false
						}
					}
					return true
				})
			}
		}
		if !ok {
			return
		}
		quickLazy = !c.Thorough()
		fam(3, three, [][]int{{0, 1, 2}}, "n3-dev", 1, []int{1})
		quickLazy = false
		if !ok || !c.Thorough() {
			return
		}
		quickLazy = true // two deviations: at most one lazy node (the full product does not fit the budget)
		fam(2, three, [][]int{{0, 1}}, "n2-dev2", 2, []int{1})
		if !ok {
			return
		}
		fam(3, []int{scen.ENone, scen.EName}, [][]int{{0, 1, 2}}, "n3-dev2", 2, []int{1})
		quickLazy = false
		if !ok {
			return
		}
		fam(4, []int{scen.ENone, scen.EName}, [][]int{{0, 1, 2, 3}, {3, 2, 1, 0}}, "n4", 0, []int{1})
	}
}

// lifecycleCheck validates the event log of the nodes in `want` (each must have exactly one
// complete sequence) and that no other node has any event in log[from:].
func lifecycleCheck(p *scen.GraphProg, log []string, nobs int, want []bool) string {
	pos := map[string][]int{}
	for i, e := range log {
		pos[e] = append(pos[e], i)
	}
	for i := 0; i < p.N; i++ {
		nm := scen.Name(i, p.N)
		if len(p.Wrap) > i && p.Wrap[i] == scen.WrapInstSelf && want[i] {
			// creation short-cut by a processor: the container's contract is "only the
			// after-initialization callbacks"; the property's part is that nothing happens twice
			// and that whatever happens keeps the lifecycle order
			if msg := shortcutCheck(nm, pos, nobs); msg != "" {
				return msg
			}
			continue
		}
		var evs []string
		for k := 0; k < nobs; k++ {
			evs = append(evs, fmt.Sprintf("before:zz-proc%d:%s", k, nm))
		}
		evs = append(evs, "aps:"+nm, "init:"+nm)
		for k := 0; k < nobs; k++ {
			evs = append(evs, fmt.Sprintf("after:zz-proc%d:%s", k, nm))
		}
		if !want[i] {
			for _, e := range evs {
				if len(pos[e]) != 0 {
					return fmt.Sprintf("%s must not be initialised here, but event %s occurred", nm, e)
				}
			}
			continue
		}
		last := -1
		for _, e := range evs {
			if len(pos[e]) != 1 {
				return fmt.Sprintf("event %s occurred %d times, want exactly once", e, len(pos[e]))
			}
			if strings.HasPrefix(e, "before:") || strings.HasPrefix(e, "after:") {
				// observers of one phase may run in any order relative to each other
				continue
			}
			if pos[e][0] < last {
				return fmt.Sprintf("event %s out of order", e)
			}
			last = pos[e][0]
		}
		aps, ini := pos["aps:"+nm][0], pos["init:"+nm][0]
		for k := 0; k < nobs; k++ {
			b, a := pos[fmt.Sprintf("before:zz-proc%d:%s", k, nm)][0], pos[fmt.Sprintf("after:zz-proc%d:%s", k, nm)][0]
			if !(b < aps && aps < ini && ini < a) {
				return fmt.Sprintf("lifecycle of %s out of order (before=%d aps=%d init=%d after=%d)", nm, b, aps, ini, a)
			}
		}
	}
	return ""
}

func shortcutCheck(nm string, pos map[string][]int, nobs int) string {
	rank := func(e string) int {
		switch {
		case strings.HasPrefix(e, "before:"):
			return 0
		case strings.HasPrefix(e, "aps:"):
			return 1
		case strings.HasPrefix(e, "init:"):
			return 2
		}
		return 3
	}
	var evs []string
	for k := 0; k < nobs; k++ {
		evs = append(evs, fmt.Sprintf("before:zz-proc%d:%s", k, nm))
	}
	evs = append(evs, "aps:"+nm, "init:"+nm)
	for k := 0; k < nobs; k++ {
		evs = append(evs, fmt.Sprintf("after:zz-proc%d:%s", k, nm))
	}
	for _, e := range evs {
		if len(pos[e]) > 1 {
			return fmt.Sprintf("event %s occurred %d times for a component whose creation a processor short-cut, want at most once", e, len(pos[e]))
		}
	}
	for _, a := range evs {
		for _, b := range evs {
			if len(pos[a]) == 1 && len(pos[b]) == 1 && rank(a) < rank(b) && pos[a][0] > pos[b][0] {
				return fmt.Sprintf("lifecycle of %s out of order: %s after %s", nm, a, b)
			}
		}
	}
	for k := 0; k < nobs; k++ {
		if e := fmt.Sprintf("after:zz-proc%d:%s", k, nm); len(pos[e]) != 1 {
			return fmt.Sprintf("event %s occurred %d times for a short-cut component, want exactly once", e, len(pos[e]))
		}
	}
	return ""
}

func reaches(p *scen.GraphProg, from, to int) bool {
	seen := make([]bool, p.N)
	st := []int{from}
	for len(st) > 0 {
		x := st[len(st)-1]
		st = st[:len(st)-1]
		for y := 0; y < p.N; y++ {
			dep := p.Edges[x][y] != 0
			for _, l := range p.InitLookup { // a look-up inside Init makes x need y just as well
				dep = dep || (l[0] == x && l[1] == y)
			}
			if dep && !seen[y] {
				if y == to {
					return true
				}
				seen[y] = true
				st = append(st, y)
			}
		}
	}
	return false
}

func c05Run(c *core.Ctx) {
	first := true
	Cases(c, c05Gen(c), func(c *core.Ctx, cs c05Case) {
		p := &cs.GraphProg
		qp, sc := shortcutView(p)
		q := *qp
		ref := refGraph(&q)
		if p.ProcNode {
			// the processor depends on node a: a (and what a needs) is created even when lazy
			q := *p
			q.Lazy = append([]bool{}, p.Lazy...)
			q.Lazy[0] = false
			need := refGraph(&q)
			eager := refGraph(p)
			for i := range ref.created {
				ref.created[i] = eager.created[i]
			}
			var mark func(i int)
			seen := make([]bool, p.N)
			mark = func(i int) {
				if seen[i] {
					return
				}
				seen[i] = true
				ref.created[i] = true
				for j := 0; j < p.N; j++ {
					if p.Edges[i][j] != 0 && j != i {
						mark(j)
					}
				}
			}
			mark(0)
			_ = need
		}
		body := func(ch *envx.Chooser) {
			o := scen.RunGraph(p, ch)
			c.S.Evaluations++
			c.S.States++
			c.S.Transitions += int64(o.Trace.Calls) + int64(len(ch.Pts)) + int64(len(o.RT.Log))
			c.Outcome(p.Family + "/" + graphSig(o))
			cc := cs
			cc.Choices = ch.Choices()
			key := func(kind string) string {
				return "C05/" + kind + "/" + core.Hash(p.N, p.Edges, p.Base, p.Lazy, p.Obs, p.ProcNode, p.Bystander, p.Wrap, p.InitLookup, cc.Choices)
			}
			if !o.OK() {
				return
			}
			log := o.RT.Log
			if p.ProcNode {
				var pn []string
				for _, e := range log {
					if strings.Contains(e, ":zz-procnode:") {
						pn = append(pn, e)
					}
				}
				want := []string{"aps:zz-procnode:dep=true:v0=v-a", "init:zz-procnode:dep=a:v0=v-a"}
				if strings.Join(pn, " ") != strings.Join(want, " ") {
					c.Report(key("procnode"), "processor-lifecycle", fmt.Sprintf("a post-processor with injection points of its own went through %v, want %v (populated, then AfterPropertiesSet, then Init, once)", pn, want), cc)
					return
				}
				ia, ip := -1, -1
				for i, e := range log {
					if e == "init:a" && ia < 0 {
						ia = i
					}
					if strings.HasPrefix(e, "init:zz-procnode:") {
						ip = i
					}
				}
				if !(ia >= 0 && ia < ip) {
					c.Report(key("procnode-dep"), "dependency-order", fmt.Sprintf("the post-processor's Init ran before the Init of its dependency a; log=%s", strings.Join(log, " ")), cc)
					return
				}
				// the remaining oracle speaks about the node events only
				var rest []string
				for _, e := range log {
					if !strings.Contains(e, ":zz-procnode:") {
						rest = append(rest, e)
					}
				}
				log = rest
			}
			if msg := lifecycleCheck(p, log, p.Obs, ref.created); msg != "" {
				c.Report(key("seq"), "lifecycle-sequence", msg+"  log="+strings.Join(log, " "), cc)
				return
			}
			pos := map[string]int{}
			for i, e := range log {
				pos[e] = i
			}
			for i := 0; i < p.N; i++ {
				if !ref.created[i] {
					continue
				}
				if sc[i] {
					continue
				}
				n := o.Nodes[i]
				nm := scen.Name(i, p.N)
				// populated (injection points and configuration) before before-initialization
				for _, pr := range o.Procs {
					if snap, ok := pr.Snap[nm]; ok && snap != scen.Snapshot(n) {
						c.Report(key("late"), "populated-late", fmt.Sprintf("%s: fields changed after its before-initialization callback (%s -> %s)", nm, snap, scen.Snapshot(n)), cc)
						return
					}
				}
				if n.V0 != "v-"+nm {
					c.Report(key("cfg"), "config-not-bound", fmt.Sprintf("%s.V0 = %q, want %q", nm, n.V0, "v-"+nm), cc)
					return
				}
				// dependencies that do not depend back are initialised first
				for j := 0; j < p.N; j++ {
					if j == i || p.Edges[i][j] == 0 || sc[j] || reaches(&q, j, i) {
						continue
					}
					if !(pos["init:"+scen.Name(j, p.N)] < pos["init:"+nm]) {
						c.Report(key("deporder"), "dependency-order", fmt.Sprintf("Init of %s ran before Init of its dependency %s; log=%s", nm, scen.Name(j, p.N), strings.Join(log, " ")), cc)
						return
					}
				}
			}
			oq := *o
			oq.Prog = &q
			if bad := checkWiring(&oq, ref, false); len(bad) > 0 {
				c.Report(key("wiring"), "wrong-wiring", bad[0], cc)
				return
			}
			// looking every node up afterwards initialises exactly the remaining lazy nodes, once
			mark := len(o.RT.Log)
			failed := ""
			abort, pan := scen.Guard(func() {
				for round := 0; round < 2; round++ {
					for i := 0; i < p.N; i++ {
						if _, err := o.App.GetComponentByName(scen.Name(i, p.N)); err != nil {
							failed = fmt.Sprintf("lookup of %s after the start failed: %v", scen.Name(i, p.N), scen.FirstLine(err))
							return
						}
					}
				}
			})
			if abort != "" || pan != "" {
				failed = "on-demand lookup after the start did not return normally: " + abort + pan
			}
			if failed != "" {
				c.Report(key("lazylookup"), "lookup-failed", failed, cc)
				return
			}
			rest := make([]bool, p.N)
			for i := range rest {
				rest[i] = !ref.created[i]
			}
			if msg := lifecycleCheck(p, o.RT.Log[mark:], p.Obs, rest); msg != "" {
				c.Report(key("lazy"), "lazy-lifecycle", "after on-demand lookups: "+msg+"  log="+strings.Join(o.RT.Log[mark:], " "), cc)
			}
		}
		if c.ReplayCase != nil {
			body(envx.Fixed(p.Kinds, cs.Choices))
			return
		}
		if first {
			first = false
			a, b := scen.RunGraph(p, envx.Fixed(p.Kinds, nil)), scen.RunGraph(p, envx.Fixed(p.Kinds, nil))
			if graphSig(a) != graphSig(b) || fmt.Sprint(a.RT.Log) != fmt.Sprint(b.RT.Log) {
				panic(envx.Divergence{Msg: "two runs of the same program differ"})
			}
			c.S.DeterminismOK = true
		}
		c.S.Programs++
		anyLazy, anyEdge := false, false
		for i := 0; i < p.N; i++ {
			anyLazy = anyLazy || p.Lazy[i]
			for j := 0; j < p.N; j++ {
				anyEdge = anyEdge || p.Edges[i][j] != 0
			}
		}
		if anyEdge && (anyLazy || nontrivialGraph(p)) {
			c.S.Nontrivial++
		}
		st := envx.Explore(envx.Options{Kinds: p.Kinds, Bound: cs.Bound, Stop: c.Expired}, body)
		if st.Truncated {
			c.Cap("exploration of a program truncated by the budget")
		}
		c.Sample(map[string]any{"program": p, "executions": st.Execs})
	})
}
