package props

import (
	"fmt"
	"reflect"

	"github.com/go-kid/ioc/container"

	"verif/internal/core"
	"verif/internal/envx"
	"verif/internal/scen"
)

func init() {
	register(&Driver{
		ID:        "C01",
		Technique: "exhaustive enumeration of labelled dependency graphs x registration orders x registry iteration orders (deviation-bounded DFS over permutation choice points), each a real container start; pointer-identity oracle over every holder, slice element and by-name / by-type lookup",
		Rule:      "programs = labelled 3-node graphs over edge kinds {none, by-name iface, by-name *T, by-type+qualifier, []iface member, []*T member} x registration order x base iteration order (+ every single non-default permutation answer for the 3-kind family, + early-reference wrap plans); non-trivial = cycle or fan-in >= 2. Families added in later rounds (look-ups inside Init, retries after an abandoned attempt, user extension points at every Order, several containers, odd names / types / values) are listed per part in this file and described in MANIFEST.json (level_claimed.text) and DESIGN §7",
		Assumptions: []string{
			"n <= 3 user components (4 in the thorough tier, three edge kinds)",
			"at most one (thorough: two) non-default iteration-order answers per start",
		},
		Parts: []Part{
			{Name: "identity", Run: c01Run, QuickS: 240, ThoroughS: 1500},
			{Name: "containers", Run: c01Apps, Workers: 4, QuickS: 30, ThoroughS: 60},
			{Name: "names", Run: c01Names, Workers: 2, QuickS: 30, ThoroughS: 60},
		},
	})
}

type c01Case struct {
	scen.GraphProg
	Bound int `json:"bound"`
}

func perms(n int) [][]int {
	var out [][]int
	for k := 0; k < factorialInt(n); k++ {
		out = append(out, scen.NthPerm(n, k))
	}
	return out
}

func factorialInt(n int) int {
	f := 1
	for i := 2; i <= n; i++ {
		f *= i
	}
	return f
}

func c01Gen(c *core.Ctx) func(yield func(c01Case) bool) {
	return func(yield func(c01Case) bool) {
		six := []int{scen.ENone, scen.EName, scen.EPtr, scen.ETypeQ, scen.ESlice, scen.ESlicePtr}
		three := []int{scen.ENone, scen.EName, scen.ESlice}
		ok := true
		// (a) all six edge kinds, n=3, bound 0, base asc/desc x registration identity/reverse
		allGraphs(3, six, false, func(e [][]int) bool {
			orders := [][]int{{0, 1, 2}, {2, 1, 0}}
			if c.Thorough() {
				orders = perms(3)
			}
			for _, base := range orders {
				for _, reg := range [][]int{{0, 1, 2}, {2, 1, 0}} {
					if ok = yield(c01Case{scen.GraphProg{N: 3, Edges: e, Base: base, Reg: reg, Family: "six-n3"}, 0}); !ok {
						return false
					}
				}
			}
			return true
		})
		if !ok {
			return
		}
		// (b) three kinds, n=3, every single deviation on a permutation point
		bound := 1
		if c.Thorough() {
			bound = 2
		}
		allGraphs(3, three, false, func(e [][]int) bool {
			p := scen.GraphProg{N: 3, Edges: e, Family: "three-n3-dev", Kinds: "P"}
			if !nontrivialGraph(&p) {
				return true
			}
			for mode := 0; mode < 3; mode++ {
				p.Mode = mode
				if ok = yield(c01Case{p, bound}); !ok {
					return false
				}
			}
			return true
		})
		if !ok {
			return
		}
		// optional slices: the same three-kind graphs with every slice point declared required=false
		allGraphs(3, three, false, func(e [][]int) bool {
			for _, base := range [][]int{{0, 1, 2}, {2, 1, 0}} {
				if ok = yield(c01Case{scen.GraphProg{N: 3, Edges: e, Base: base, SliceOpt: true, Family: "three-n3-optslice"}, 0}); !ok {
					return false
				}
			}
			return true
		})
		if !ok {
			return
		}
		// (c) consistent substitution: early-reference-only wrap plans (every holder and the lookup
		// must see the one early proxy)
		allGraphs(3, three, false, func(e [][]int) bool {
			for w := 1; w < 8; w++ {
				wrap := []int{w & 1 * scen.WrapEarly, (w >> 1) & 1 * scen.WrapEarly, (w >> 2) & 1 * scen.WrapEarly}
				for _, base := range [][]int{{0, 1, 2}, {2, 1, 0}} {
					if ok = yield(c01Case{scen.GraphProg{N: 3, Edges: e, Wrap: wrap, Base: base, Family: "three-n3-earlywrap"}, 0}); !ok {
						return false
					}
				}
			}
			// one substituted component, every substitution timing: whenever such a start succeeds,
			// all holders and the lookup must still see one object
			for node := 0; node < 3; node++ {
				for plan := scen.WrapBefore; plan < scen.NumWrapPlans; plan++ {
					wrap := []int{0, 0, 0}
					wrap[node] = plan
					for _, base := range [][]int{{0, 1, 2}, {2, 1, 0}} {
						if ok = yield(c01Case{scen.GraphProg{N: 3, Edges: e, Wrap: wrap, Base: base, Family: "three-n3-onewrap"}, 0}); !ok {
							return false
						}
					}
				}
			}
			return true
		})
		if !ok {
			return
		}
		// one component replaced by another instance of its own type, every timing, pointer- and
		// interface-typed holders
		allGraphs(3, []int{scen.ENone, scen.EName, scen.EPtr}, false, func(e [][]int) bool {
			for node := 0; node < 3; node++ {
				for plan := 1; plan < scen.NumWrapPlans; plan++ {
					wrap := []int{0, 0, 0}
					wrap[node] = plan
					if ok = yield(c01Case{scen.GraphProg{N: 3, Edges: e, Wrap: wrap, WrapSame: true, Family: "ptr-n3-sametype"}, 0}); !ok {
						return false
					}
				}
			}
			return true
		})
		if !ok {
			return
		}
		// creation short-cut from before-instantiation: the processor answers a substitute or the
		// component itself; every holder and the look-ups must see that one object
		allGraphs(3, three, false, func(e [][]int) bool {
			for node := 0; node < 3; node++ {
				for _, plan := range []int{scen.WrapInst, scen.WrapInstSelf} {
					wrap := []int{0, 0, 0}
					wrap[node] = plan
					for _, base := range [][]int{{0, 1, 2}, {2, 1, 0}} {
						if ok = yield(c01Case{scen.GraphProg{N: 3, Edges: e, Wrap: wrap, Base: base, Family: "three-n3-binst"}, 0}); !ok {
							return false
						}
					}
				}
			}
			return true
		})
		if !ok {
			return
		}
		// programmatic look-ups during initialisation: node i looks node j up inside its Init (j is
		// created on demand while i is still in creation - also when i has no injection point of
		// its own), without substitution and with one node substituted
		allGraphs(3, []int{scen.ENone, scen.EName}, false, func(e [][]int) bool {
			for _, lz := range []int{0, 2, 4, 6} {
				lazy := []bool{false, lz&2 == 2, lz&4 == 4}
				for i := 0; i < 3; i++ {
					for j := 0; j < 3; j++ {
						if i == j {
							continue
						}
						for node := -1; node < 3; node++ {
							for _, plan := range []int{scen.WrapEarly, scen.WrapAfter, scen.WrapEarlyAfterSame} {
								w := []int{0, 0, 0}
								if node >= 0 {
									w[node] = plan
								} else if plan != scen.WrapEarly {
									continue
								}
								p := scen.GraphProg{N: 3, Edges: e, Lazy: lazy, Wrap: w, InitLookup: [][]int{{i, j}}, Family: "two-n3-initlookup"}
								if ok = yield(c01Case{p, 0}); !ok {
									return false
								}
							}
						}
					}
				}
			}
			return true
		})
		if !ok {
			return
		}
		// pointer-typed holders ([*T], []*T) next to interface-typed ones, one substituted node: a
		// wrapper does not fit a *T field, so such starts normally fail - if one succeeds, every
		// holder must still see the one published object
		allGraphs(3, []int{scen.ENone, scen.EName, scen.EPtr}, false, func(e [][]int) bool {
			anyPtr := false
			for i := range e {
				for _, k := range e[i] {
					anyPtr = anyPtr || k == scen.EPtr
				}
			}
			if !anyPtr {
				return true
			}
			for node := 0; node < 3; node++ {
				for _, plan := range []int{scen.WrapEarly, scen.WrapAfter, scen.WrapEarlyAfterSame} {
					wrap := []int{0, 0, 0}
					wrap[node] = plan
					if ok = yield(c01Case{scen.GraphProg{N: 3, Edges: e, Wrap: wrap, Family: "ptr-n3-onewrap"}, 0}); !ok {
						return false
					}
				}
			}
			return true
		})
		if !ok || !c.Thorough() {
			return
		}
		allGraphs(4, three, false, func(e [][]int) bool {
			for _, base := range [][]int{{0, 1, 2, 3}, {3, 2, 1, 0}} {
				if ok = yield(c01Case{scen.GraphProg{N: 4, Edges: e, Base: base, Family: "three-n4"}, 0}); !ok {
					return false
				}
			}
			return true
		})
	}
}

var ifaceType = reflect.TypeOf((*scen.Iface)(nil)).Elem()

func c01Run(c *core.Ctx) {
	first := true
	Cases(c, c01Gen(c), func(c *core.Ctx, cs c01Case) {
		p := &cs.GraphProg
		q, _ := shortcutView(p)
		ref := refGraph(q)
		body := func(ch *envx.Chooser) {
			o := scen.RunGraph(p, ch)
			c.S.Evaluations++
			c.S.States++
			c.S.Transitions += int64(o.Trace.Calls) + int64(len(ch.Pts))
			c.Outcome(p.Family + "/" + graphSig(o))
			cc := cs
			cc.Choices = ch.Choices()
			key := func(kind string) string {
				return "C01/" + kind + "/" + core.Hash(p.N, p.Edges, p.Base, p.Reg, p.Wrap, p.Mode, p.Lazy, p.InitLookup, p.SliceOpt, p.WrapSame, cc.Choices)
			}
			if o.Panic != "" || o.Abort != "" || o.Err != nil {
				return // C01 speaks about successful starts (C02 decides whether it had to succeed)
			}
			lazyFailed := make([]bool, p.N)
			for t := 0; t < p.N; t++ {
				if len(p.Lazy) > t && p.Lazy[t] {
					// lazy nodes are looked up now (created on demand unless a start-time holder or a
					// look-up needed them); a failing on-demand creation is C02's / C03's matter
					scen.Guard(func() { o.Fin[t], o.FinErr[t] = o.App.GetComponentByName(scen.Name(t, p.N)) })
					if o.FinErr[t] != nil || o.Fin[t] == nil {
						o.Fin[t], o.FinErr[t], lazyFailed[t] = nil, nil, true
					}
				}
			}
			oq := *o
			oq.Prog = q
			if bad := checkWiring(&oq, ref, true); len(bad) > 0 {
				c.Report(key("identity"), "shared-instance", bad[0], cc)
				return
			}
			anyWrap := false
			for _, w := range p.Wrap {
				anyWrap = anyWrap || w != 0
			}
			for i := 0; i < p.N; i++ {
				if lazyFailed[i] {
					continue
				}
				if o.FinErr[i] != nil || o.Fin[i] == nil {
					c.Report(key("lookup"), "lookup-failed", fmt.Sprintf("by-name lookup of %s failed after a successful start: %v", scen.Name(i, p.N), o.FinErr[i]), cc)
					return
				}
				if !anyWrap && o.Fin[i] != o.Comps[i] {
					c.Report(key("copy"), "shared-instance", fmt.Sprintf("by-name lookup of %s is not the registered object", scen.Name(i, p.N)), cc)
					return
				}
				var again any
				scen.Guard(func() { again, _ = o.App.GetComponentByName(scen.Name(i, p.N)) })
				if !sameObject(again, o.Fin[i]) {
					c.Report(key("relookup"), "shared-instance", fmt.Sprintf("two by-name lookups of %s returned different objects", scen.Name(i, p.N)), cc)
					return
				}
			}
			// by-type lookup returns the same objects
			var all []any
			var err error
			if ab, pn := scen.Guard(func() { all, err = o.App.GetComponents(container.InterfaceType(ifaceType)) }); ab != "" || pn != "" {
				err = fmt.Errorf("did not return normally: %s%s", ab, pn)
			}
			if err != nil {
				c.Report(key("bytype"), "lookup-failed", "by-type lookup failed after a successful start: "+err.Error(), cc)
				return
			}
			seen := map[int]bool{}
			for _, x := range all {
				b := scen.NodeOf(x)
				if b == nil {
					continue
				}
				if lazyFailed[b.Idx] {
					continue // its on-demand creation failed: nothing was published to compare with
				}
				if seen[b.Idx] {
					c.Report(key("bytype-dup"), "shared-instance", "by-type lookup returned "+b.Nm+" twice", cc)
					return
				}
				seen[b.Idx] = true
				if !sameObject(x, o.Fin[b.Idx]) {
					c.Report(key("bytype-id"), "shared-instance", "by-type lookup returned another object for "+b.Nm+" than the by-name lookup", cc)
					return
				}
			}
			for _, v := range o.Trace.Viol {
				c.Report(key("meta"), "shared-instance", "registry: "+v, cc)
				return
			}
		}
		if c.ReplayCase != nil {
			body(envx.Fixed(p.Kinds, cs.Choices))
			return
		}
		if first {
			first = false
			a, b := scen.RunGraph(p, envx.Fixed(p.Kinds, nil)), scen.RunGraph(p, envx.Fixed(p.Kinds, nil))
			if graphSig(a) != graphSig(b) || fmt.Sprint(a.RT.Log) != fmt.Sprint(b.RT.Log) {
				panic(envx.Divergence{Msg: "two runs of the same program differ"})
			}
			c.S.DeterminismOK = true
		}
		c.S.Programs++
		if nontrivialGraph(p) {
			c.S.Nontrivial++
		}
		st := envx.Explore(envx.Options{Kinds: p.Kinds, Bound: cs.Bound, Stop: c.Expired}, body)
		if st.Truncated {
			c.Cap("exploration of a program truncated by the budget")
		}
		c.Sample(map[string]any{"program": p, "deviation_bound": cs.Bound, "executions": st.Execs, "choice_points": st.Points})
	})
}
