package props

import (
	"fmt"
	"strings"

	"verif/internal/core"
	"verif/internal/envx"
	"verif/internal/scen"
)

func init() {
	register(&Driver{
		ID:        "C03",
		Technique: "exhaustive enumeration of dependency graphs x per-node substitution plans (early reference / before-init / after-init / both consistently / both inconsistently) x iteration orders, each a real start with a real SmartInstantiationAware post-processor; version-consistency oracle over every holder and the by-name lookup",
		Rule:      "programs = labelled 3-node graphs over {none, by-name iface, []iface member} x wrap plan per node (6 plans) x base order; non-trivial = at least one wrapped node that some holder depends on; distinct = distinct (graph, plan, order). Families added in later rounds (look-ups inside Init, retries after an abandoned attempt, user extension points at every Order, several containers, odd names / types / values) are listed per part in this file and described in MANIFEST.json (level_claimed.text) and DESIGN §7",
		Assumptions: []string{
			"holders use interface-typed slots (a wrapper is not assignable to *T; that is a type error, not a version question)",
			"substitution in PostProcessBeforeInstantiation is outside the family",
			"success is not demanded where all versions agree (the container may be conservative); only success with mixed versions is a violation",
		},
		Parts: []Part{{Name: "versions", Run: c03Run, QuickS: 240, ThoroughS: 1800}},
	})
}

type c03Case struct {
	scen.GraphProg
	Bound int `json:"bound"`
}

func c03Gen(c *core.Ctx) func(yield func(c03Case) bool) {
	return func(yield func(c03Case) bool) {
		three := []int{scen.ENone, scen.EName, scen.ESlice}
		ok := true
		emit := func(n int, e [][]int, maxWrapped int, orders [][]int, fam string, bound int) bool {
			plan := make([]int, n)
			for {
				w := 0
				for _, x := range plan {
					if x != 0 {
						w++
					}
				}
				if w > 0 && w <= maxWrapped {
					for _, base := range orders {
						p := scen.GraphProg{N: n, Edges: e, Wrap: append([]int{}, plan...), Base: base, Family: fam}
						if bound > 0 {
							p.Kinds = "P"
						}
						if ok = yield(c03Case{p, bound}); !ok {
							return false
						}
					}
				}
				i := 0
				for i < n {
					plan[i]++
					if plan[i] < scen.NumWrapPlans {
						break
					}
					plan[i] = 0
					i++
				}
				if i == n {
					return true
				}
			}
		}
		allGraphs(3, three, false, func(e [][]int) bool {
			if c.Thorough() {
				return emit(3, e, 3, perms(3), "n3", 0)
			}
			return emit(3, e, 3, [][]int{{0, 1, 2}, {2, 1, 0}}, "n3", 0)
		})
		if !ok {
			return
		}
		// optional edges: an optional point into a cycle whose member gets substituted (a failure on
		// the optional edge must not leave a holder with a version that is later superseded)
		allGraphs(3, []int{scen.ENone, scen.EName, scen.ENameOpt}, false, func(e [][]int) bool {
			anyOpt := false
			for i := range e {
				for _, k := range e[i] {
					anyOpt = anyOpt || k == scen.ENameOpt
				}
			}
			if !anyOpt {
				return true
			}
			for node := 0; node < 3; node++ {
				for plan := 1; plan < scen.NumWrapPlans; plan++ {
					w := []int{0, 0, 0}
					w[node] = plan
					for _, base := range [][]int{{0, 1, 2}, {2, 1, 0}} {
						if ok = yield(c03Case{scen.GraphProg{N: 3, Edges: e, Wrap: w, Base: base, Family: "n3-optional"}, 0}); !ok {
							return false
						}
					}
				}
			}
			return true
		})
		if !ok {
			return
		}
		// programmatic lookups during initialisation: node i looks a lazy node j up inside its Init
		// (j is created on demand while i is still in creation), one substituted node
		allGraphs(3, []int{scen.ENone, scen.EName}, false, func(e [][]int) bool {
			for _, lz := range []int{4, 6, 2} {
				lazy := []bool{false, lz&2 == 2, lz&4 == 4}
				for i := 0; i < 3; i++ {
					for j := 1; j < 3; j++ {
						if i == j || !lazy[j] {
							continue
						}
						for node := 0; node < 3; node++ {
							for plan := 1; plan < scen.NumWrapPlans; plan++ {
								w := []int{0, 0, 0}
								w[node] = plan
								p := scen.GraphProg{N: 3, Edges: e, Lazy: lazy, Wrap: w, InitLookup: [][]int{{i, j}}, Family: "n3-initlookup"}
								if ok = yield(c03Case{p, 0}); !ok {
									return false
								}
							}
						}
					}
				}
			}
			return true
		})
		if !ok {
			return
		}
		// pointer-typed holders next to interface-typed ones: a wrapper does not fit a *T field, so
		// such a start normally fails; if it succeeds, the pointer holder must not keep the raw
		// component while the container publishes the wrapper
		allGraphs(3, []int{scen.ENone, scen.EName, scen.EPtr}, false, func(e [][]int) bool {
			anyPtr := false
			for i := range e {
				for _, k := range e[i] {
					anyPtr = anyPtr || k == scen.EPtr
				}
			}
			if !anyPtr {
				return true
			}
			for node := 0; node < 3; node++ {
				for plan := 1; plan < scen.NumWrapPlans; plan++ {
					w := []int{0, 0, 0}
					w[node] = plan
					for _, base := range [][]int{{0, 1, 2}, {2, 1, 0}} {
						if ok = yield(c03Case{scen.GraphProg{N: 3, Edges: e, Wrap: w, Base: base, Family: "n3-ptr"}, 0}); !ok {
							return false
						}
					}
				}
			}
			return true
		})
		if !ok {
			return
		}
		// one target through two points of one holder (a single-valued point and a slice member)
		allGraphs(3, []int{scen.ENone, scen.EName, scen.ESlice, scen.EBoth}, false, func(e [][]int) bool {
			anyBoth := false
			for i := range e {
				for _, k := range e[i] {
					anyBoth = anyBoth || k == scen.EBoth
				}
			}
			if !anyBoth {
				return true
			}
			for node := 0; node < 3; node++ {
				for _, plan := range []int{scen.WrapAfter, scen.WrapEarlyAfterDiff, scen.WrapBefore} {
					w := []int{0, 0, 0}
					w[node] = plan
					for _, base := range [][]int{{0, 1, 2}, {2, 1, 0}} {
						if ok = yield(c03Case{scen.GraphProg{N: 3, Edges: e, Wrap: w, Base: base, Family: "n3-twopoints"}, 0}); !ok {
							return false
						}
					}
				}
			}
			return true
		})
		if !ok {
			return
		}
		// substitutes of the component's own type (a post-processor swaps in another instance)
		allGraphs(3, []int{scen.ENone, scen.EName, scen.EPtr}, false, func(e [][]int) bool {
			for node := 0; node < 3; node++ {
				for plan := 1; plan < scen.NumWrapPlans; plan++ {
					w := []int{0, 0, 0}
					w[node] = plan
					if ok = yield(c03Case{scen.GraphProg{N: 3, Edges: e, Wrap: w, WrapSame: true, Family: "n3-sametype"}, 0}); !ok {
						return false
					}
				}
			}
			return true
		})
		if !ok {
			return
		}
		// components that refer to themselves (a by-name point or a slice that includes the holder):
		// a self reference is normally refused, but a component substituted at its early reference is
		// handed its own early substitute, which then has the component itself among its holders.
		// All 2-node graphs with self references under every combination of timings, and all 3-node
		// graphs where the substituted node refers to itself
		allGraphs(2, three, true, func(e [][]int) bool {
			if e[0][0] == 0 && e[1][1] == 0 {
				return true
			}
			return emit(2, e, 2, [][]int{{0, 1}, {1, 0}}, "n2-self", 0)
		})
		if !ok {
			return
		}
		allGraphs(3, three, false, func(e [][]int) bool {
			for node := 0; node < 3; node++ {
				for _, self := range []int{scen.EName, scen.ESlice} {
					g := make([][]int, 3)
					for i := range g {
						g[i] = append([]int{}, e[i]...)
					}
					g[node][node] = self
					for plan := 1; plan < scen.NumWrapPlans; plan++ {
						w := []int{0, 0, 0}
						w[node] = plan
						for _, base := range [][]int{{0, 1, 2}, {2, 1, 0}} {
							if ok = yield(c03Case{scen.GraphProg{N: 3, Edges: g, Wrap: w, Base: base, Family: "n3-self"}, 0}); !ok {
								return false
							}
						}
					}
				}
			}
			return true
		})
		if !ok {
			return
		}
		// a processor that answers nil from before-initialization for one node (the container then
		// skips that node's init methods and after-initialization callbacks and keeps the component),
		// the same or another node substituted at any timing
		allGraphs(3, three, false, func(e [][]int) bool {
			for veto := 0; veto < 3; veto++ {
				for node := 0; node < 3; node++ {
					for plan := 1; plan < scen.NumWrapPlans; plan++ {
						w := []int{0, 0, 0}
						w[node] = plan
						v := []bool{false, false, false}
						v[veto] = true
						for _, base := range [][]int{{0, 1, 2}, {2, 1, 0}} {
							if ok = yield(c03Case{scen.GraphProg{N: 3, Edges: e, Wrap: w, Veto: v, Base: base, Family: "n3-veto"}, 0}); !ok {
								return false
							}
						}
					}
				}
			}
			return true
		})
		if !ok {
			return
		}
		// func-shaped substitutes (closures implementing the interface): two closures of one literal
		// are two versions although they share a code pointer
		allGraphs(3, three, false, func(e [][]int) bool {
			for node := 0; node < 3; node++ {
				for plan := 1; plan < scen.NumWrapPlans; plan++ {
					w := []int{0, 0, 0}
					w[node] = plan
					for _, base := range [][]int{{0, 1, 2}, {2, 1, 0}} {
						if ok = yield(c03Case{scen.GraphProg{N: 3, Edges: e, Wrap: w, Base: base, WrapFunc: true, Family: "n3-funcwrap"}, 0}); !ok {
							return false
						}
					}
				}
			}
			return true
		})
		if !ok {
			return
		}
		// lazy components on the graph (created only when an eager component needs them, or by the
		// look-ups after the start), one substituted node at every timing
		allGraphs(3, three, false, func(e [][]int) bool {
			for lz := 1; lz < 8; lz++ {
				lazy := []bool{lz&1 == 1, lz&2 == 2, lz&4 == 4}
				for node := 0; node < 3; node++ {
					for plan := 1; plan < scen.NumWrapPlans; plan++ {
						w := []int{0, 0, 0}
						w[node] = plan
						for _, base := range [][]int{{0, 1, 2}, {2, 1, 0}} {
							if ok = yield(c03Case{scen.GraphProg{N: 3, Edges: e, Lazy: lazy, Wrap: w, Base: base, Family: "n3-lazy"}, 0}); !ok {
								return false
							}
						}
					}
				}
			}
			return true
		})
		if !ok {
			return
		}
		// substitution from before-instantiation (the container short-cuts creation and publishes
		// what the processor answered: a substitute, or the component itself), alone and next to one
		// other node substituted at any later timing
		allGraphs(3, three, false, func(e [][]int) bool {
			for node := 0; node < 3; node++ {
				for _, inst := range []int{scen.WrapInst, scen.WrapInstSelf} {
					for other := -1; other < 3; other++ {
						if other == node {
							continue
						}
						for plan := 1; plan < scen.NumWrapPlans; plan++ {
							w := []int{0, 0, 0}
							w[node] = inst
							if other >= 0 {
								w[other] = plan
							} else if plan > 1 {
								break
							}
							for _, base := range [][]int{{0, 1, 2}, {2, 1, 0}} {
								if ok = yield(c03Case{scen.GraphProg{N: 3, Edges: e, Wrap: w, Base: base, Family: "n3-binst"}, 0}); !ok {
									return false
								}
							}
						}
					}
				}
			}
			return true
		})
		if !ok {
			return
		}
		// 2-node graphs with self-made deviations on iteration order
		allGraphs(2, three, false, func(e [][]int) bool { return emit(2, e, 2, [][]int{{0, 1}}, "n2-dev", 1) })
		if !ok || !c.Thorough() {
			return
		}
		allGraphs(3, three, false, func(e [][]int) bool { return emit(3, e, 2, [][]int{{0, 1, 2}}, "n3-dev", 1) })
		if !ok {
			return
		}
		allGraphs(4, []int{scen.ENone, scen.EName}, false, func(e [][]int) bool {
			return emit(4, e, 2, [][]int{{0, 1, 2, 3}, {3, 2, 1, 0}}, "n4", 0)
		})
	}
}

func c03Run(c *core.Ctx) {
	first := true
	Cases(c, c03Gen(c), func(c *core.Ctx, cs c03Case) {
		p := &cs.GraphProg
		body := func(ch *envx.Chooser) {
			o := scen.RunGraph(p, ch)
			c.S.Evaluations++
			c.S.States++
			c.S.Transitions += int64(o.Trace.Calls) + int64(len(ch.Pts))
			c.Outcome(p.Family + "/" + graphSig(o))
			cc := cs
			cc.Choices = ch.Choices()
			key := func(kind string) string {
				return "C03/" + kind + "/" + core.Hash(p.N, p.Edges, p.Base, p.Wrap, p.Lazy, p.InitLookup, p.WrapFunc, p.WrapSame, p.Veto, cc.Choices)
			}
			if !o.OK() {
				return // failing is always allowed by C03 (panics / hangs are C09 / C02 matters)
			}
			// every holder's value for t and the by-name lookup of t are one object. Pass 1: the
			// components the start created (eager ones and what they needed). Pass 2: the remaining
			// lazy ones are created on demand, one look-up after the other; such a creation may fail
			// (the container is allowed to be conservative), and what a failed on-demand creation
			// leaves behind is outside this property (DESIGN §6): the check of this execution ends there.
			created := refGraph(p).created
			// what every holder holds right after Run, before any look-up of a lazy component (a
			// look-up may re-create and re-populate a component the container dropped)
			slotsOf := func(n *scen.N) []scen.Iface {
				out := append([]scen.Iface{n.S0, n.S1, n.S2, n.S3, n.S4, n.S5}, n.L0...)
				for _, q := range append([]*scen.N{n.P0, n.P1, n.P2, n.P3}, n.LP...) { // pointer-typed holders
					if q != nil {
						out = append(out, q)
					}
				}
				return out
			}
			atReturn := make([][]scen.Iface, p.N)
			for i := range atReturn {
				atReturn[i] = slotsOf(o.Nodes[i])
			}
			check := func(onlyCreated bool) bool {
				for t := 0; t < p.N; t++ {
					if onlyCreated && !created[t] {
						continue
					}
					if o.Fin[t] == nil && o.FinErr[t] == nil {
						scen.Guard(func() { o.Fin[t], o.FinErr[t] = o.App.GetComponentByName(scen.Name(t, p.N)) })
					}
					if o.FinErr[t] != nil || o.Fin[t] == nil {
						if created[t] {
							c.Report(key("lookup"), "lookup-failed", fmt.Sprintf("by-name lookup of %s failed after a successful start: %v (events: %s)", scen.Name(t, p.N), scen.FirstLine(o.FinErr[t]), strings.Join(o.RT.Log, " ")), cc)
						}
						return false
					}
					if b := scen.NodeOf(o.Fin[t]); b == nil || b.Idx != t {
						c.Report(key("wrongtarget"), "wrong-component", fmt.Sprintf("by-name lookup of %s returned %s", scen.Name(t, p.N), describe(o.Fin[t])), cc)
						return false
					}
				}
				for i := 0; i < p.N; i++ {
					if onlyCreated && !created[i] {
						continue
					}
					n := o.Nodes[i]
					vals := slotsOf(n)
					if onlyCreated {
						vals = atReturn[i]
					}
					for _, v := range vals {
						if v == nil {
							continue
						}
						b := scen.NodeOf(v)
						if b == nil || o.Fin[b.Idx] == nil {
							continue
						}
						if !sameObject(v, o.Fin[b.Idx]) {
							c.Report(key("stale"), "stale-version",
								fmt.Sprintf("start-up succeeded, but %s holds version %s of %s while the container publishes %s", n.Nm, version(v), b.Nm, version(o.Fin[b.Idx])), cc)
							return false
						}
					}
				}
				return true
			}
			if check(true) {
				check(false)
			}
		}
		if c.ReplayCase != nil {
			body(envx.Fixed(p.Kinds, cs.Choices))
			return
		}
		if first {
			first = false
			a, b := scen.RunGraph(p, envx.Fixed(p.Kinds, nil)), scen.RunGraph(p, envx.Fixed(p.Kinds, nil))
			if graphSig(a) != graphSig(b) || fmt.Sprint(a.RT.Log) != fmt.Sprint(b.RT.Log) {
				panic(envx.Divergence{Msg: "two runs of the same program differ"})
			}
			c.S.DeterminismOK = true
		}
		c.S.Programs++
		// non-trivial: some wrapped node has a holder
		for j := 0; j < p.N; j++ {
			if p.Wrap[j] == 0 {
				continue
			}
			dep := false
			for i := 0; i < p.N; i++ {
				dep = dep || p.Edges[i][j] != 0
			}
			if dep {
				c.S.Nontrivial++
				break
			}
		}
		st := envx.Explore(envx.Options{Kinds: p.Kinds, Bound: cs.Bound, Stop: c.Expired}, body)
		if st.Truncated {
			c.Cap("exploration of a program truncated by the budget")
		}
		c.Sample(map[string]any{"program": p, "executions": st.Execs})
	})
}

func version(v any) string {
	s := ""
	for {
		switch x := v.(type) {
		case *scen.W:
			s += "W[" + x.Tag + "]:"
			v = x.Inner
			continue
		case scen.WF:
			s += fmt.Sprintf("WF[%s#%d]:", x.Tag(), x.Serial())
			v = x(1)
			continue
		case *scen.N:
			if x.Copy != "" {
				return s + fmt.Sprintf("copy[%s]@%p", x.Copy, x)
			}
			return s + "raw"
		case *scen.NZ:
			return s + "raw"
		}
		return s + fmt.Sprintf("%T", v)
	}
}
