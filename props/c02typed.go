package props

import (
	"fmt"
	"sort"
	"strings"

	"verif/internal/core"
	"verif/internal/envx"
	"verif/internal/scen"
)

// Typed cycles: components that implement an interface and hold a single-valued point of that
// same interface resolved by type (so every peer is a candidate of every peer's point, the holder
// included), next to "neutral" holders of the same point that do not implement the interface.

type c2Peer struct {
	scen.QBase
	Peer scen.IQ `wire:""`
}
type c2PeerOpt struct {
	scen.QBase
	Peer scen.IQ `wire:",required=false"`
}
type c2PeerPrim struct {
	scen.QBase
	Peer scen.IQ `wire:""`
}

func (*c2PeerPrim) Primary() {}

type c2PeerPrimOpt struct {
	scen.QBase
	Peer scen.IQ `wire:",required=false"`
}

func (*c2PeerPrimOpt) Primary() {}

// c2PeerEmb declares its point inside an embedded struct of an unexported type.
type c2deps struct {
	Peer scen.IQ `wire:""`
}
type c2PeerEmb struct {
	scen.QBase
	c2deps
}

type c2Neutral struct {
	Nm string
	G  scen.IQ `wire:""`
}

func (n *c2Neutral) Naming() string { return n.Nm }

type c2NeutralOpt struct {
	Nm string
	G  scen.IQ `wire:",required=false"`
}

func (n *c2NeutralOpt) Naming() string { return n.Nm }

type c2PeerSpec struct {
	Prim  bool `json:"primary,omitempty"`
	Named bool `json:"named,omitempty"`
	Opt   bool `json:"optional,omitempty"`
	Emb   bool `json:"point_in_unexported_embedded_struct,omitempty"`
}

func (s c2PeerSpec) typ() string {
	t := "c2Peer"
	if s.Emb {
		return "c2PeerEmb"
	}
	if s.Prim {
		t += "Prim"
	}
	if s.Opt {
		t += "Opt"
	}
	return t
}

type c02TypedCase struct {
	Peers      []c2PeerSpec `json:"peers"`
	Neutral    int          `json:"neutral_mask"` // bit 0: a neutral holder named to sort first, bit 1: one named to sort last
	NeutralOpt bool         `json:"neutral_optional,omitempty"`
	Desc       bool         `json:"descending,omitempty"`
	Bound      int          `json:"bound,omitempty"`
	Choices    []int        `json:"choices,omitempty"`
}

func c02TypedGen(c *core.Ctx) func(yield func(c02TypedCase) bool) {
	return func(yield func(c02TypedCase) bool) {
		var specs []c2PeerSpec
		for _, prim := range []bool{false, true} {
			for _, named := range []bool{true, false} {
				for _, opt := range []bool{false, true} {
					specs = append(specs, c2PeerSpec{Prim: prim, Named: named, Opt: opt})
				}
			}
		}
		specs = append(specs, c2PeerSpec{Named: true, Emb: true}, c2PeerSpec{Emb: true})
		maxPeers := 3
		ok := true
		seqs(maxPeers, len(specs), func(s []int) bool {
			var peers []c2PeerSpec
			dup := map[string]bool{}
			for _, i := range s {
				sp := specs[i]
				if !sp.Named {
					if dup[sp.typ()] {
						return true // two default-named components of one type: duplicate registration
					}
					dup[sp.typ()] = true
				}
				peers = append(peers, sp)
			}
			for neutral := 0; neutral < 4; neutral++ {
				for _, nopt := range []bool{false, true} {
					if neutral == 0 && nopt {
						continue
					}
					for _, desc := range []bool{false, true} {
						if ok = yield(c02TypedCase{Peers: peers, Neutral: neutral, NeutralOpt: nopt, Desc: desc}); !ok {
							return false
						}
					}
					// every single departure from the base iteration order
					if len(peers) >= 2 && neutral != 0 && (c.Thorough() || len(peers) == 2) {
						if ok = yield(c02TypedCase{Peers: peers, Neutral: neutral, NeutralOpt: nopt, Bound: 1}); !ok {
							return false
						}
					}
				}
			}
			return true
		})
	}
}

// c2Rank: admissible winners among candidate peers (indices) by the primary / naming rules.
func c2Rank(peers []c2PeerSpec, cand []int) []int {
	var prims, unnamed []int
	for _, i := range cand {
		if peers[i].Prim {
			prims = append(prims, i)
		}
		if !peers[i].Named {
			unnamed = append(unnamed, i)
		}
	}
	if len(prims) == 1 {
		return prims
	}
	if len(prims) == 0 && len(unnamed) == 1 {
		return unnamed
	}
	return cand
}

// c2Build creates the components of a typed-cycle case: the registration list, the permutable
// names in ascending order, and getters for every peer's and every neutral holder's point.
func c2Build(cs c02TypedCase) (comps []any, names []string, get, nget []func() any, nnames []string) {
	n := len(cs.Peers)
	user := map[string]bool{}
	get = make([]func() any, n)
	for i, sp := range cs.Peers {
		b := scen.QBase{Id: fmt.Sprintf("x%d", i)}
		name := "verif/props/" + sp.typ()
		if sp.Named {
			b.Name = b.Id
			name = b.Id
		}
		user[name] = true
		switch sp.typ() {
		case "c2Peer":
			x := &c2Peer{QBase: b}
			comps, get[i] = append(comps, x), func() any { return x.Peer }
		case "c2PeerOpt":
			x := &c2PeerOpt{QBase: b}
			comps, get[i] = append(comps, x), func() any { return x.Peer }
		case "c2PeerPrim":
			x := &c2PeerPrim{QBase: b}
			comps, get[i] = append(comps, x), func() any { return x.Peer }
		case "c2PeerEmb":
			x := &c2PeerEmb{QBase: b}
			comps, get[i] = append(comps, x), func() any { return x.Peer }
		default:
			x := &c2PeerPrimOpt{QBase: b}
			comps, get[i] = append(comps, x), func() any { return x.Peer }
		}
	}
	for bit, nm := range []string{"0-neutral", "zz-neutral"} {
		if cs.Neutral>>bit&1 == 0 {
			continue
		}
		user[nm] = true
		nnames = append(nnames, nm)
		if cs.NeutralOpt {
			x := &c2NeutralOpt{Nm: nm}
			comps, nget = append(comps, x), append(nget, func() any { return x.G })
		} else {
			x := &c2Neutral{Nm: nm}
			comps, nget = append(comps, x), append(nget, func() any { return x.G })
		}
	}
	for k := range user {
		names = append(names, k)
	}
	sort.Strings(names)
	return
}

func c02Typed(c *core.Ctx) {
	first := true
	Cases(c, c02TypedGen(c), func(c *core.Ctx, cs c02TypedCase) {
		kinds := ""
		if cs.Bound > 0 {
			kinds = "P"
		}
		n := len(cs.Peers)
		lastSig := ""
		body := func(ch *envx.Chooser) {
			comps, base, get, nget, nnames := c2Build(cs)
			user := map[string]bool{}
			for _, k := range base {
				user[k] = true
			}
			if cs.Desc {
				sort.Sort(sort.Reverse(sort.StringSlice(base)))
				for i, j := 0, len(comps)-1; i < j; i, j = i+1, j-1 {
					comps[i], comps[j] = comps[j], comps[i]
				}
			}
			o := scen.Start(scen.StartSpec{Ch: ch, Comps: comps, User: user, Base: base})
			c.S.Evaluations++
			c.S.States++
			c.S.Transitions += int64(o.Trace.Calls) + int64(len(ch.Pts))
			lastSig = scen.FirstLine(o.Err) + o.Panic + o.Abort
			for i := range get {
				lastSig += "|" + scen.IdOf(get[i]())
			}
			cc := cs
			cc.Choices = ch.Choices()
			key := func(kind string) string { return "C02/typed-" + kind + "/" + core.Hash(cc) }
			desc := fmt.Sprintf("peers %+v neutral=%b neutral-optional=%v descending=%v", cs.Peers, cs.Neutral, cs.NeutralOpt, cs.Desc)
			switch {
			case o.Abort != "":
				c.Outcome("typed/abort")
				c.Report(key("nonterm"), "non-termination", desc+": start-up exceeded its budget: "+o.Abort, cc)
				return
			case o.Panic != "" || len(o.ChildPanics) > 0:
				c.Outcome("typed/panic")
				c.Report(key("panic"), "panic", desc+": panic escaped Run: "+o.Panic+fmt.Sprint(o.ChildPanics), cc)
				return
			}
			// reference
			mustErr := ""
			all := make([]int, n)
			for i := range all {
				all[i] = i
			}
			want := make([][]int, n) // admissible targets per peer (nil: stays empty)
			for i, sp := range cs.Peers {
				var others []int
				for j := range cs.Peers {
					if j != i {
						others = append(others, j)
					}
				}
				if len(others) == 0 {
					if !sp.Opt {
						mustErr = fmt.Sprintf("the required point of x%d can only be satisfied by its holder", i)
					}
					continue
				}
				want[i] = c2Rank(cs.Peers, others)
			}
			nwant := c2Rank(cs.Peers, all)
			if n == 0 && cs.Neutral != 0 && !cs.NeutralOpt {
				mustErr = "the required point of a neutral holder has no candidate"
			}
			switch {
			case mustErr != "" && o.Err == nil:
				c.Outcome("typed/missing-error")
				c.Report(key("noerror"), "missing-error", desc+": start-up succeeded although "+mustErr, cc)
				return
			case mustErr != "":
				c.Outcome("typed/error-as-required")
				return
			case o.Err != nil:
				c.Outcome("typed/spurious")
				c.Report(key("spurious"), "spurious-failure", desc+": every point has a target other than its holder, yet start-up failed: "+scen.FirstLine(o.Err), cc)
				return
			}
			c.Outcome(fmt.Sprintf("typed/ok/%d+%d", n, len(nget)))
			in := func(id string, adm []int) bool {
				for _, a := range adm {
					if id == fmt.Sprintf("x%d", a) {
						return true
					}
				}
				return len(adm) == 0 && id == "-"
			}
			for i := range cs.Peers {
				if got := scen.IdOf(get[i]()); !in(got, want[i]) {
					c.Report(key("wiring"), "wrong-wiring", fmt.Sprintf("%s: x%d.Peer holds %s, admissible targets (holder excluded, then primary / un-named preference): %v", desc, i, got, want[i]), cc)
					return
				}
			}
			for k, g := range nget {
				if got := scen.IdOf(g()); !in(got, nwant) {
					c.Report(key("neutral"), "wrong-wiring", fmt.Sprintf("%s: %s.G holds %s, admissible targets: %v", desc, nnames[k], got, nwant), cc)
					return
				}
			}
		}
		if c.ReplayCase != nil {
			body(envx.Fixed(kinds, cs.Choices))
			return
		}
		if first {
			first = false
			body(envx.Fixed(kinds, nil))
			a := lastSig
			body(envx.Fixed(kinds, nil))
			if a != lastSig {
				panic(envx.Divergence{Msg: "two runs of the same program differ"})
			}
			c.S.Evaluations -= 2
			c.S.States -= 2
			c.S.DeterminismOK = true
		}
		c.S.Programs++
		if n >= 2 {
			c.S.Nontrivial++
		}
		st := envx.Explore(envx.Options{Kinds: kinds, Bound: cs.Bound, Stop: c.Expired}, body)
		if st.Truncated {
			c.Cap("exploration of a program truncated by the budget")
		}
		if c.S.Programs%500 == 1 {
			c.Sample(map[string]any{"case": cs, "executions": st.Execs})
		}
	})
}

// ---- C10: the typed-cycle programs under every permutation of (iteration, registration) order

type c10TypedCase struct {
	c02TypedCase
	Perm []int `json:"perm,omitempty"`
}

// c2Sig runs one start of the case with the components enumerated and registered in the order
// perm (indices into the ascending name list) and renders an order-independent signature:
// success or failure, and every point that is not genuinely tied.
func c2Sig(cs c02TypedCase, perm []int) (string, *scen.StartObs) {
	comps, names, get, nget, _ := c2Build(cs)
	// registration list in the same permutation (comps are in the order peers..., neutrals...;
	// map them to their names first)
	byName := map[string]any{}
	ni := 0
	for i, sp := range cs.Peers {
		nm := "verif/props/" + sp.typ()
		if sp.Named {
			nm = fmt.Sprintf("x%d", i)
		}
		byName[nm] = comps[i]
	}
	for bit, nm := range []string{"0-neutral", "zz-neutral"} {
		if cs.Neutral>>bit&1 == 1 {
			byName[nm] = comps[len(cs.Peers)+ni]
			ni++
		}
	}
	user := map[string]bool{}
	var base []string
	var reg []any
	for _, i := range perm {
		base = append(base, names[i])
		reg = append(reg, byName[names[i]])
		user[names[i]] = true
	}
	o := scen.Start(scen.StartSpec{Ch: envx.Fixed("", nil), Comps: reg, User: user, Base: base})
	switch {
	case o.Panic != "" || o.Abort != "" || len(o.ChildPanics) > 0:
		return "panic:" + o.Panic + o.Abort, o
	case o.Err != nil:
		return "fail", o
	}
	n := len(cs.Peers)
	all := make([]int, n)
	for i := range all {
		all[i] = i
	}
	sig := "ok"
	for i := range cs.Peers {
		var others []int
		for j := range cs.Peers {
			if j != i {
				others = append(others, j)
			}
		}
		if len(others) > 0 && len(c2Rank(cs.Peers, others)) > 1 {
			sig += "|tie"
		} else {
			sig += "|" + scen.IdOf(get[i]())
		}
	}
	for _, g := range nget {
		if len(c2Rank(cs.Peers, all)) > 1 {
			sig += "|tie"
		} else {
			sig += "|" + scen.IdOf(g())
		}
	}
	return sig, o
}

func c10Typed(c *core.Ctx) {
	gen := func(yield func(c10TypedCase) bool) {
		c02TypedGen(c)(func(cs c02TypedCase) bool {
			if cs.Desc || cs.Bound != 0 {
				return true // the orders are enumerated here
			}
			k := len(cs.Peers)
			for b := 0; b < 2; b++ {
				k += cs.Neutral >> b & 1
			}
			if k > 4 && !c.Thorough() {
				return true
			}
			return yield(c10TypedCase{c02TypedCase: cs})
		})
	}
	Cases(c, gen, func(c *core.Ctx, cs c10TypedCase) {
		k := len(cs.Peers)
		for b := 0; b < 2; b++ {
			k += cs.Neutral >> b & 1
		}
		if c.ReplayCase != nil {
			s0, _ := c2Sig(cs.c02TypedCase, scen.NthPerm(k, 0))
			s1, _ := c2Sig(cs.c02TypedCase, cs.Perm)
			c.S.Evaluations += 2
			if s0 != s1 {
				c.Report("C10/replay", "order-dependent", fmt.Sprintf("%q vs %q", s0, s1), cs)
			}
			return
		}
		c.S.Programs++
		if len(cs.Peers) >= 2 {
			c.S.Nontrivial++
		}
		first := ""
		for p := 0; p < factorialInt(k); p++ {
			perm := scen.NthPerm(k, p)
			sig, o := c2Sig(cs.c02TypedCase, perm)
			c.S.Evaluations++
			c.S.States++
			c.S.Transitions += int64(o.Trace.Calls)
			c.Outcome("typed/" + strings.SplitN(sig, "|", 2)[0])
			if p == 0 {
				first = sig
				continue
			}
			if sig != first {
				cc := cs
				cc.Perm = perm
				c.Report("C10/typed/"+core.Hash(cs.Peers, cs.Neutral, cs.NeutralOpt), "order-dependent",
					fmt.Sprintf("components implementing the interface of their own by-type point %+v, neutral holders mask %b (optional %v): outcome %q under the identity order, %q under order %v", cs.Peers, cs.Neutral, cs.NeutralOpt, first, sig, perm), cc)
				break
			}
		}
		if c.S.Programs%200 == 1 {
			c.Sample(map[string]any{"case": cs, "orders_run": factorialInt(k), "signature": first})
		}
	})
}
