package props

import (
	"encoding/json"
	"os"
	"testing"
	"time"

	"github.com/go-kid/ioc/syslog"

	"verif/internal/core"
)

// TestReplay re-executes one recorded violation without the orchestrator and without any
// exploration: the case (program + choice sequence) stored in the replay file is run five times
// by the driver's own oracle. Run it through tools/replay_test.sh <replay-file> (which builds with
// the same overlay as the checks, and with -race for the parts that need it).
func TestReplay(t *testing.T) {
	file := os.Getenv("VERIF_REPLAY")
	if file == "" {
		t.Skip("VERIF_REPLAY not set")
	}
	b, err := os.ReadFile(file)
	if err != nil {
		t.Fatal(err)
	}
	var v core.Violation
	if err := json.Unmarshal(b, &v); err != nil {
		t.Fatal(err)
	}
	d := Registry[v.Property]
	if d == nil {
		t.Fatalf("unknown property %q", v.Property)
	}
	syslog.Level(syslog.LvPanic)
	for _, p := range d.Parts {
		if p.Name != v.Part {
			continue
		}
		c := core.NewCtx(v.Property, "quick", p.Name, 0, 0, 1, time.Now().Add(10*time.Minute))
		c.ReplayCase = v.Case
		p.Run(c)
		if c.S.EngineError != "" {
			t.Fatalf("engine error: %s", c.S.EngineError)
		}
		if c.S.ViolationCount == 0 {
			t.Logf("the recorded violation did not reproduce on this tree (%s)", v.Key)
			return
		}
		for _, x := range c.S.Violations {
			t.Errorf("VIOLATION property=%s kind=%s: %s", x.Property, x.Kind, x.Detail)
		}
		return
	}
	t.Fatalf("part %q not found", v.Part)
}
