package props

import (
	"fmt"
	"strings"

	"github.com/go-kid/ioc/app"
	"github.com/go-kid/ioc/container"
	"github.com/go-kid/ioc/container/support"
	"github.com/go-kid/ioc/definition"

	"verif/internal/core"
	"verif/internal/envx"
	"verif/internal/scen"
)

func init() {
	register(&Driver{
		ID:        "C13",
		Technique: "exhaustive enumeration of runner sets (<=3 runners over three ordering classes x five Order values, lazy or eager) x each choice of failing runner x component backgrounds (chain, cycle, lazy dependency) x iteration orders, each a real start; event-log oracle",
		Rule:      "programs = runner sequences of length <=3 (thorough <=4) over 11 symbols x {all eager, all lazy (thorough: every lazy mask)} x failing runner in {none, 1st, 2nd, 3rd} x 3 backgrounds x 2 base orders; non-trivial = >=2 runners or a failing runner. Families added in later rounds (look-ups inside Init, retries after an abandoned attempt, user extension points at every Order, several containers, odd names / types / values) are listed per part in this file and described in MANIFEST.json (level_claimed.text) and DESIGN §7",
		Assumptions: []string{
			"runners with equal rank (same class and Order, or both unordered) may run in any relative order; when one of them fails the others of equal rank may or may not have run",
			"more than three runners are not covered",
		},
		Parts: []Part{
			{Name: "runners", Run: c13Run, QuickS: 90, ThoroughS: 900},
			{Name: "many-runners", Run: c13Many, Workers: 4, QuickS: 30, ThoroughS: 60},
			{Name: "user-registry", Run: c13UserRegistry, Workers: 4, QuickS: 60, ThoroughS: 120},
		},
	})
}

type c13Case struct {
	Seq        []int `json:"runners"`   // symbols as in C12
	LazyMask   int   `json:"lazy_mask"` // bit i: runner i is LazyInit
	Fail       int   `json:"failing"`   // -1 none
	Background int   `json:"background"`
	Desc       bool  `json:"descending_order,omitempty"`
	Zero       int   `json:"zero_size_runners,omitempty"`           // mask over stateless (field-less) runner types Z1,Z2,Z3
	ErrShape   int   `json:"err_shape,omitempty"`                   // what kind of error value the failing runner returns (scen.Err*)
	LateOrder  bool  `json:"order_known_after_init,omitempty"`      // the runners' Order() answers 0 until their Init ran
	AppDep     int   `json:"runners_depend_on_app,omitempty"`       // runners hold the App itself: 1 = named to be created before it, 2 = after it
	Marker     bool  `json:"priority_by_embedded_marker,omitempty"` // priority-ordered runners get Priority() from the library's embeddable marker and Order() from a second embedded base
}

// c13OrderBase supplies Order() to whoever embeds it.
type c13OrderBase struct{ O int }

func (b *c13OrderBase) Order() int { return b.O }

// c13MarkerRun is priority-ordered by composition: the library's marker struct next to a base with Order().
type c13MarkerRun struct {
	definition.PriorityComponent
	c13OrderBase
	P scen.Part
}

func (r *c13MarkerRun) Naming() string { return r.P.Nm }
func (r *c13MarkerRun) Run() error {
	r.P.RT.Event("run:" + r.P.Nm)
	if r.P.Fail {
		return r.P.RT.MkErr("run:" + r.P.Nm)
	}
	return nil
}

// runners that hold the App itself (they sit on a cycle with the App's own slice of runners)
type c13AppRunP struct {
	scen.RunP
	A     *app.App `wire:""`
	early bool
}
type c13AppRunO struct {
	scen.RunO
	A     *app.App `wire:""`
	early bool
}
type c13AppRunN struct {
	scen.RunN
	A     *app.App `wire:""`
	early bool
}

// eager components that are container extension points as well (the usual way to get hold of the
// factory / the definition registry): they are ordinary components too and must be wired and
// initialised before the first runner
type c13FPP struct {
	Dep scen.Iface `wire:"a"`
	rt  *scen.RT
}

func (*c13FPP) Naming() string { return "zfpp" }
func (*c13FPP) PostProcessComponentFactory(container.Factory) error {
	return nil
}
func (p *c13FPP) Init() error {
	p.rt.Event(fmt.Sprintf("init:zfpp:dep=%v", p.Dep != nil))
	return nil
}

type c13Scan struct {
	Dep scen.Iface `wire:"a"`
	rt  *scen.RT
}

func (*c13Scan) Naming() string { return "zscan" }
func (*c13Scan) PostProcessDefinitionRegistry(container.DefinitionRegistry, any, string) error {
	return nil
}
func (p *c13Scan) Init() error {
	p.rt.Event(fmt.Sprintf("init:zscan:dep=%v", p.Dep != nil))
	return nil
}

// ... and whose Order is only known after their Init
type c13AppRunPI struct {
	scen.RunPI
	A     *app.App `wire:""`
	early bool
}
type c13AppRunOI struct {
	scen.RunOI
	A     *app.App `wire:""`
	early bool
}

func (r *c13AppRunPI) Naming() string { return c13AppName(r.Nm, r.early) }
func (r *c13AppRunOI) Naming() string { return c13AppName(r.Nm, r.early) }

func c13AppName(nm string, early bool) string {
	if early {
		return "a-" + nm // sorts before the App's own component name
	}
	return nm
}
func (r *c13AppRunP) Naming() string { return c13AppName(r.Nm, r.early) }
func (r *c13AppRunO) Naming() string { return c13AppName(r.Nm, r.early) }
func (r *c13AppRunN) Naming() string { return c13AppName(r.Nm, r.early) }

func c13Gen(c *core.Ctx) func(yield func(c13Case) bool) {
	return func(yield func(c13Case) bool) {
		// stateless runners of field-less types (they all live at one address) next to 0-2 ordinary ones
		for z := 1; z < 8; z++ {
			for _, s := range [][]int{nil, {10}, {0, 5}} {
				for bg := 0; bg < 3; bg++ {
					for _, d := range []bool{false, true} {
						if !yield(c13Case{Seq: s, Fail: -1, Background: bg, Desc: d, Zero: z}) {
							return
						}
					}
				}
			}
		}
		// every shape of error value a failing runner may return (causer without cause, empty message, ...)
		for shape := 1; shape < scen.NumErrShapes; shape++ {
			stop := false
			seqs(2, 12, func(s []int) bool {
				for f := 0; f < len(s); f++ {
					for _, m := range []int{0, 1<<len(s) - 1} {
						if !yield(c13Case{Seq: s, LazyMask: m, Fail: f, ErrShape: shape}) {
							stop = true
							return false
						}
					}
				}
				return true
			})
			if stop {
				return
			}
		}
		{
			stop := false
			seqs(2, 12, func(s []int) bool {
				for f := -1; f < len(s); f++ {
					for _, d := range []bool{false, true} {
						if !yield(c13Case{Seq: s, Fail: f, Background: 3, Desc: d}) {
							stop = true
							return false
						}
					}
				}
				return true
			})
			if stop {
				return
			}
		}
		{
			stop := false
			seqs(3, 12, func(s []int) bool {
				for _, x := range s {
					if c12Class(x) == 2 {
						return true // unordered runners have no Order to compute
					}
				}
				for _, d := range []bool{false, true} {
					if !yield(c13Case{Seq: s, Fail: -1, Desc: d, LateOrder: true}) {
						stop = true
						return false
					}
					for dep := 1; dep <= 2 && len(s) <= 2; dep++ { // ... and the runners hold the App
						if !yield(c13Case{Seq: s, Fail: -1, Desc: d, LateOrder: true, AppDep: dep}) {
							stop = true
							return false
						}
					}
				}
				return true
			})
			if stop {
				return
			}
		}
		{
			// priority-ordered runners composed from the library's embeddable marker, also failing
			stop := false
			seqs(3, 12, func(s []int) bool {
				anyP := false
				for _, x := range s {
					anyP = anyP || c12Class(x) == 0
				}
				if !anyP {
					return true
				}
				for f := -1; f < len(s); f++ {
					for _, d := range []bool{false, true} {
						if !yield(c13Case{Seq: s, Fail: f, Desc: d, Marker: true}) {
							stop = true
							return false
						}
					}
				}
				return true
			})
			if stop {
				return
			}
		}
		for dep := 1; dep <= 2; dep++ {
			stop := false
			seqs(2, 12, func(s []int) bool {
				for _, d := range []bool{false, true} {
					if !yield(c13Case{Seq: s, Fail: -1, Desc: d, AppDep: dep}) {
						stop = true
						return false
					}
				}
				return true
			})
			if stop {
				return
			}
		}
		maxLen := 3
		if c.Thorough() {
			maxLen = 4
		}
		seqs(maxLen, 12, func(s []int) bool {
			n := len(s)
			masks := []int{0, 1<<n - 1}
			if n == 4 {
				return c13Yield4(yield, s)
			}
			if c.Thorough() {
				masks = nil
				for m := 0; m < 1<<n; m++ {
					masks = append(masks, m)
				}
			}
			for _, m := range masks {
				for f := -1; f < n; f++ {
					for bg := 0; bg < 3; bg++ {
						for _, d := range []bool{false, true} {
							if !yield(c13Case{Seq: s, LazyMask: m, Fail: f, Background: bg, Desc: d}) {
								return false
							}
						}
					}
				}
			}
			return true
		})
	}
}

func c13Run(c *core.Ctx) {
	Cases(c, c13Gen(c), func(c *core.Ctx, cs c13Case) {
		n := len(cs.Seq)
		names := make([]string, n)
		p := &scen.GraphProg{N: 2, Edges: mkEdges(2), Obs: 1, ErrShape: cs.ErrShape}
		switch cs.Background {
		case 0: // chain
			p.Edges[0][1] = scen.EName
		case 1: // 2-cycle
			p.Edges[0][1], p.Edges[1][0] = scen.EName, scen.ESlice
		case 2: // eager node with a lazy dependency and an unused lazy node
			p.N, p.Edges = 3, mkEdges(3)
			p.Edges[0][1] = scen.EName
			p.Lazy = []bool{false, true, true}
		case 3: // chain, plus a factory post-processor and a scanner that are ordinary eager components too
			p.Edges[0][1] = scen.EName
		}
		if cs.Desc {
			for i := p.N - 1; i >= 0; i-- {
				p.Base = append(p.Base, i)
			}
		}
		p.Attach = func(rt *scen.RT) []any {
			var out []any
			for i, s := range cs.Seq {
				names[i] = fmt.Sprintf("r%d", i)
				part := scen.Part{Nm: names[i], O: c12Order(s), RT: rt, Fail: i == cs.Fail}
				lazy := cs.LazyMask>>i&1 == 1
				switch {
				case cs.Marker && c12Class(s) == 0:
					out = append(out, &c13MarkerRun{c13OrderBase: c13OrderBase{part.O}, P: part})
				case cs.LateOrder && cs.AppDep != 0 && c12Class(s) == 0:
					out = append(out, &c13AppRunPI{RunPI: scen.RunPI{Part: part}, early: cs.AppDep == 1})
				case cs.LateOrder && cs.AppDep != 0:
					out = append(out, &c13AppRunOI{RunOI: scen.RunOI{Part: part}, early: cs.AppDep == 1})
				case cs.LateOrder && c12Class(s) == 0:
					out = append(out, &scen.RunPI{Part: part})
				case cs.LateOrder:
					out = append(out, &scen.RunOI{Part: part})
				case cs.AppDep != 0 && c12Class(s) == 0:
					out = append(out, &c13AppRunP{RunP: scen.RunP{Part: part}, early: cs.AppDep == 1})
				case cs.AppDep != 0 && c12Class(s) == 1:
					out = append(out, &c13AppRunO{RunO: scen.RunO{Part: part}, early: cs.AppDep == 1})
				case cs.AppDep != 0:
					out = append(out, &c13AppRunN{RunN: scen.RunN{Part: part}, early: cs.AppDep == 1})
				case c12Class(s) == 0 && lazy:
					out = append(out, &scen.RunPZ{RunP: scen.RunP{Part: part}})
				case c12Class(s) == 0:
					out = append(out, &scen.RunP{Part: part})
				case c12Class(s) == 1 && lazy:
					out = append(out, &scen.RunOZ{RunO: scen.RunO{Part: part}})
				case c12Class(s) == 1:
					out = append(out, &scen.RunO{Part: part})
				case s == c12Marker:
					out = append(out, &scen.RunM{Part: part})
				case lazy:
					out = append(out, &scen.RunNZ{RunN: scen.RunN{Part: part}})
				default:
					out = append(out, &scen.RunN{Part: part})
				}
			}
			if cs.Desc {
				for i, j := 0, len(out)-1; i < j; i, j = i+1, j-1 {
					out[i], out[j] = out[j], out[i]
				}
			}
			for i, z := range []any{&scen.Z1{}, &scen.Z2{}, &scen.Z3{}} {
				if cs.Zero>>i&1 == 1 {
					out = append(out, z)
				}
			}
			if cs.Background == 3 {
				out = append(out, &c13FPP{rt: rt}, &c13Scan{rt: rt})
			}
			return out
		}
		scen.ZLog = nil
		o := scen.RunGraph(p, envx.Fixed("", nil))
		c.S.Evaluations++
		c.S.Programs++
		c.S.States++
		c.S.Transitions += int64(o.Trace.Calls) + int64(len(o.RT.Log))
		if cs.Zero != 0 && o.OK() {
			want := 0
			for i := 0; i < 3; i++ {
				if cs.Zero>>i&1 == 1 {
					want++
					cnt := 0
					for _, e := range scen.ZLog {
						if e == fmt.Sprintf("run:Z%d", i+1) {
							cnt++
						}
					}
					if cnt != 1 {
						c.Outcome("zero-size-runner-not-once")
						c.Report("C13/zero/"+core.Hash(cs), "not-exactly-once", fmt.Sprintf("stateless runner Z%d (a field-less type) was invoked %d times; runner log %v, ordinary runners %v", i+1, cnt, scen.ZLog, cs.Seq), cs)
						return
					}
				}
			}
		}
		if n >= 2 || cs.Fail >= 0 {
			c.S.Nontrivial++
		}
		var symn []string
		for _, s := range cs.Seq {
			symn = append(symn, c12Sym(s))
		}
		key := func(kind string) string { return "C13/" + kind + "/" + core.Hash(cs) }
		desc := fmt.Sprintf("runners %v lazy=%b failing=%d background=%d", symn, cs.LazyMask, cs.Fail, cs.Background)
		if cs.ErrShape != 0 {
			desc += fmt.Sprintf(" error-shape=%d", cs.ErrShape)
		}
		if cs.AppDep != 0 {
			desc += fmt.Sprintf(" runners-hold-the-App=%d", cs.AppDep)
		}
		if cs.LateOrder {
			desc += " (Order known after Init)"
		}
		if o.Panic != "" || o.Abort != "" {
			c.Outcome("crash")
			c.Report(key("crash"), "panic", desc+": "+o.Panic+o.Abort, cs)
			return
		}
		log := o.RT.Log
		firstRun, lastInit := -1, -1
		var ran []int
		count := map[int]int{}
		for i, e := range log {
			if strings.HasPrefix(e, "run:") {
				if firstRun < 0 {
					firstRun = i
				}
				var k int
				fmt.Sscanf(e, "run:r%d", &k)
				ran = append(ran, k)
				count[k]++
			} else {
				lastInit = i
			}
		}
		if firstRun >= 0 && lastInit > firstRun {
			c.Outcome("runner-before-ready")
			c.Report(key("early"), "runner-before-ready", fmt.Sprintf("%s: a runner ran before all components finished initialisation; log=%v", desc, log), cs)
			return
		}
		// eager nodes (and the lazy dependency of a) must have been initialised before any runner
		for i := 0; i < p.N; i++ {
			need := !(len(p.Lazy) > i && p.Lazy[i]) || (cs.Background == 2 && i == 1)
			if need && len(ran) > 0 && !strings.Contains(strings.Join(log[:firstRun], " "), "init:"+scen.Name(i, p.N)) {
				c.Outcome("runner-before-ready")
				c.Report(key("notready"), "runner-before-ready", fmt.Sprintf("%s: runner invoked although %s was not initialised; log=%v", desc, scen.Name(i, p.N), log), cs)
				return
			}
		}
		if cs.Background == 3 && len(ran) > 0 {
			before := strings.Join(log[:firstRun], " ")
			for _, w := range []string{"init:zfpp:dep=true", "init:zscan:dep=true"} {
				if !strings.Contains(before, w) {
					c.Outcome("runner-before-ready")
					c.Report(key("notready"), "runner-before-ready", fmt.Sprintf("%s: a runner was invoked although an eager component that is a factory post-processor / scanner as well had not been wired and initialised (%s missing); log=%v", desc, w, log), cs)
					return
				}
			}
		}
		var classes, orders []int
		for _, k := range ran {
			classes = append(classes, c12Class(cs.Seq[k]))
			orders = append(orders, c12Order(cs.Seq[k]))
		}
		if msg := contractViolation(classes, orders); msg != "" {
			c.Outcome("contract-violated")
			c.Report(key("order"), "order-contract", fmt.Sprintf("%s: runners ran in sequence %v: %s", desc, ran, msg), cs)
			return
		}
		for k, cnt := range count {
			if cnt > 1 {
				c.Outcome("twice")
				c.Report(key("twice"), "not-exactly-once", fmt.Sprintf("%s: runner r%d invoked %d times", desc, k, cnt), cs)
				return
			}
		}
		strictlyBefore := func(a, b int) bool {
			ca, cb := c12Class(cs.Seq[a]), c12Class(cs.Seq[b])
			return ca < cb || (ca == cb && ca < 2 && c12Order(cs.Seq[a]) < c12Order(cs.Seq[b]))
		}
		if cs.Fail < 0 {
			if o.Err != nil {
				c.Outcome("spurious-error")
				c.Report(key("spurious"), "spurious-error", desc+": no runner fails but Run returned "+scen.FirstLine(o.Err), cs)
				return
			}
			if len(ran) != n {
				c.Outcome("not-all")
				c.Report(key("missing"), "not-exactly-once", fmt.Sprintf("%s: %d of %d runners were invoked (%v)", desc, len(ran), n, ran), cs)
				return
			}
			c.Outcome(fmt.Sprintf("ok/%d", n))
		} else {
			f := cs.Fail
			switch {
			case o.Err == nil:
				c.Outcome("swallowed")
				c.Report(key("swallowed"), "error-swallowed", desc+": the failing runner's error did not make Run fail", cs)
			case len(ran) == 0 || ran[len(ran)-1] != f:
				c.Outcome("ran-after-failure")
				c.Report(key("after"), "runner-after-failure", fmt.Sprintf("%s: invocation sequence %v does not end with the failing runner r%d", desc, ran, f), cs)
			default:
				for k := 0; k < n; k++ {
					if k != f && strictlyBefore(k, f) && count[k] != 1 {
						c.Outcome("skipped-earlier")
						c.Report(key("skipped"), "not-exactly-once", fmt.Sprintf("%s: runner r%d ranks before the failing r%d but was not invoked (%v)", desc, k, f, ran), cs)
						return
					}
					if k != f && strictlyBefore(f, k) && count[k] != 0 {
						c.Outcome("ran-later")
						c.Report(key("later"), "runner-after-failure", fmt.Sprintf("%s: runner r%d ranks after the failing r%d but was invoked (%v)", desc, k, f, ran), cs)
						return
					}
				}
				c.Outcome(fmt.Sprintf("failed-at/%d-of-%d", len(ran), n))
			}
		}
		if c.S.Programs%4000 == 1 {
			c.Sample(map[string]any{"runners": symn, "lazy_mask": cs.LazyMask, "failing": cs.Fail, "background": cs.Background, "log": log})
		}
	})
}

// c13Yield4: four runners (thorough): all eager, every failing position, one background, one order.
func c13Yield4(yield func(c13Case) bool, s []int) bool {
	for f := -1; f < 4; f++ {
		if !yield(c13Case{Seq: s, Fail: f, Background: 1}) {
			return false
		}
	}
	return true
}

// ---- a user-supplied singleton registry (app.SetRegistry): the runners registered in it are
// invoked like those of the default registry

func c13UserRegistry(c *core.Ctx) {
	type uc struct {
		Seq  []int `json:"runners"`
		Fail int   `json:"failing"`
		Pre  bool  `json:"components_registered_before_the_option"`
	}
	gen := func(yield func(uc) bool) {
		seqs(3, 12, func(s []int) bool {
			for f := -1; f < len(s); f++ {
				for _, pre := range []bool{false, true} {
					if !yield(uc{append([]int{}, s...), f, pre}) {
						return false
					}
				}
			}
			return true
		})
	}
	Cases(c, gen, func(c *core.Ctx, cs uc) {
		rt := &scen.RT{}
		var comps []any
		for i, s := range cs.Seq {
			p := scen.Part{Nm: fmt.Sprintf("r%d", i), O: c12Order(s), RT: rt, Fail: i == cs.Fail}
			switch {
			case c12Class(s) == 0:
				comps = append(comps, &scen.RunP{Part: p})
			case c12Class(s) == 1:
				comps = append(comps, &scen.RunO{Part: p})
			case s == c12Marker:
				comps = append(comps, &scen.RunM{Part: p})
			default:
				comps = append(comps, &scen.RunN{Part: p})
			}
		}
		reg := support.NewRegistry()
		sp := scen.StartSpec{Ch: envx.Fixed("", nil), Opts: []app.SettingOption{app.SetRegistry(reg)}, Comps: comps}
		if cs.Pre {
			// the registry arrives filled
			for _, x := range comps {
				reg.RegisterSingleton(x)
			}
			sp.Comps = nil
		}
		o := scen.Start(sp)
		c.S.Evaluations++
		c.S.Programs++
		c.S.States++
		c.S.Nontrivial++
		c.S.Transitions += int64(o.Trace.Calls)
		key := "C13/user-registry/" + core.Hash(cs)
		var symn []string
		for _, s := range cs.Seq {
			symn = append(symn, c12Sym(s))
		}
		desc := fmt.Sprintf("runners %v in a user-supplied registry (filled before the start: %v), failing %d", symn, cs.Pre, cs.Fail)
		var classes, orders []int
		seen := map[int]int{}
		for _, e := range rt.Log {
			var i int
			if _, err := fmt.Sscanf(e, "run:r%d", &i); err == nil {
				seen[i]++
				classes = append(classes, c12Class(cs.Seq[i]))
				orders = append(orders, c12Order(cs.Seq[i]))
			}
		}
		switch {
		case o.Panic != "" || o.Abort != "":
			c.Outcome("user-registry/panic")
			c.Report(key, "panic", desc+": "+o.Panic+o.Abort, cs)
		case cs.Fail < 0 && o.Err != nil:
			c.Outcome("user-registry/start-failed")
			c.Report(key, "start-failed", desc+": "+scen.FirstLine(o.Err), cs)
		case cs.Fail >= 0 && o.Err == nil:
			c.Outcome("user-registry/error-swallowed")
			c.Report(key, "error-swallowed", fmt.Sprintf("%s: the failing runner's error did not make Run fail (runner log %v)", desc, rt.Log), cs)
		case cs.Fail < 0 && len(rt.Log) != len(cs.Seq):
			c.Outcome("user-registry/not-once")
			c.Report(key, "not-exactly-once", fmt.Sprintf("%s: %d of %d runners were invoked (%v)", desc, len(rt.Log), len(cs.Seq), rt.Log), cs)
		case contractViolation(classes, orders) != "":
			c.Outcome("user-registry/order")
			c.Report(key, "order-contract", fmt.Sprintf("%s: runners ran as %v: %s", desc, rt.Log, contractViolation(classes, orders)), cs)
		default:
			for i, n := range seen {
				if n > 1 {
					c.Outcome("user-registry/not-once")
					c.Report(key, "not-exactly-once", fmt.Sprintf("%s: runner r%d was invoked %d times", desc, i, n), cs)
					return
				}
			}
			c.Outcome("user-registry/ok")
		}
	})
}
