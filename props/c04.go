package props

import (
	"errors"
	"fmt"
	"strings"

	cd "github.com/go-kid/ioc/component_definition"
	"github.com/go-kid/ioc/container"
	"github.com/go-kid/ioc/container/support"

	"verif/internal/core"
	"verif/internal/envx"
	"verif/internal/scen"
)

func init() {
	register(&Driver{
		ID:        "C04",
		Technique: "explicit-state exploration: all well-nested operation trees (create / nested create / lookups with and without early references / failing create / failing early factory) up to a size bound executed on a fresh real singleton registry with a reference automaton stepped alongside; plus the same automaton monitored on every registry call of real starts with every single injected fault, followed by repeated lookups",
		Rule:      "layer 1: op trees over names {a,b}, ops {Get(n,early?), InCreation(n), Add(n) (direct publication), Expose(n) (the early-reference factory registered again inside the creation), Create(n){body}->ok|err with ok|failing early factory}, <=4 ops nesting <=2 (thorough <=5/3); states = distinct abstract protocol states (per name: published, creating depth, early ref seen, failed, in-creation mark); layers 2+3: 3-node graphs x lazy masks x every single fault site, then 3 rounds of by-name lookups; non-trivial = history contains a nested or failing creation. Families added in later rounds (look-ups inside Init, retries after an abandoned attempt, user extension points at every Order, several containers, odd names / types / values) are listed per part in this file and described in MANIFEST.json (level_claimed.text) and DESIGN §7",
		Assumptions: []string{
			"registry-level histories are those a factory can issue: the creation body starts by registering the early-reference factory; no re-entrant creation of a name already in creation",
			"> 2 names or > 5 operations at registry level are not covered",
			"only successful early-factory runs count towards 'at most once'",
		},
		Parts: []Part{
			{Name: "optrees", Run: c04Trees, QuickS: 60, ThoroughS: 900},
			{Name: "starts", Run: c04Starts, QuickS: 60, ThoroughS: 900},
			{Name: "reentrant-request", Run: c04Reentrant, Workers: 1, QuickS: 30, ThoroughS: 60},
		},
	})
}

// ---- layer 1: operation trees on the real registry

type c04Op struct {
	K      string  `json:"k"` // G0 G1 IC AD AF CR
	N      string  `json:"n"`
	Body   []c04Op `json:"body,omitempty"`
	Fail   bool    `json:"fail,omitempty"`
	EarlyF bool    `json:"earlyFails,omitempty"`
}

func (o c04Op) String() string {
	if o.K != "CR" {
		return o.K + "(" + o.N + ")"
	}
	var b []string
	for _, x := range o.Body {
		b = append(b, x.String())
	}
	r, ef := "ok", ""
	if o.Fail {
		r = "ERR"
	}
	if o.EarlyF {
		ef = ",earlyfails"
	}
	return "CR(" + o.N + ef + "){" + strings.Join(b, ";") + "}->" + r
}

type c04Case struct {
	Ops []c04Op `json:"ops"`
}

type dummyComp struct{ s string }

type c04World struct {
	tr      *scen.TraceSCR
	reg     container.SingletonComponentRegistry
	viol    []string
	states  map[string]bool
	trans   int64
	inCreat map[string]bool
	pubs    map[string]*cd.Meta
	failedN map[string]bool
	// addedDuring: the name was published directly (Add) while its own creation was running
	addedDuring map[string]bool
	attempts    map[string]int // creation attempts so far: early references carry their attempt's number
	// earlyFails: the early-reference factory registered for the running creation of the name fails
	earlyFails map[string]bool
}

var c04Names = []string{"a", "b"}

func (w *c04World) exec(ops []c04Op) {
	for _, o := range ops {
		w.trans++
		switch o.K {
		case "IC":
			got := w.reg.IsSingletonCurrentlyInCreation(o.N)
			if got != w.inCreat[o.N] {
				w.viol = append(w.viol, fmt.Sprintf("InCreation(%s) = %v although the reference says %v", o.N, got, w.inCreat[o.N]))
			}
		case "G0", "G1":
			got, err := w.reg.GetSingleton(o.N, o.K == "G1")
			if o.K == "G1" && w.inCreat[o.N] && !w.earlyFails[o.N] && w.pubs[o.N] == nil && !w.addedDuring[o.N] && (got == nil || err != nil) {
				// a creation is running and its early-reference factory works: a look-up that allows
				// early references observes the early reference
				w.viol = append(w.viol, fmt.Sprintf("G1(%s) during the creation of %s returned nothing (err=%v) although an early-reference factory is registered", o.N, o.N, err))
			}
			if p := w.pubs[o.N]; p != nil && (got != p || err != nil) {
				w.viol = append(w.viol, fmt.Sprintf("%s(%s) returned something else than the published instance", o.K, o.N))
			}
			if w.failedN[o.N] && !w.inCreat[o.N] && got != nil && err == nil {
				w.viol = append(w.viol, fmt.Sprintf("%s(%s) after a failed creation returned an instance with nil error", o.K, o.N))
			} else if got != nil && err == nil && w.pubs[o.N] == nil && !w.addedDuring[o.N] {
				// nothing is published under this name: the only thing a look-up may hand out is the
				// early reference made by the creation attempt that is running right now
				dc, _ := got.Raw.(*dummyComp)
				want := fmt.Sprintf("early-%s#%d", o.N, w.attempts[o.N])
				switch {
				case !w.inCreat[o.N]:
					w.viol = append(w.viol, fmt.Sprintf("%s(%s) returned an instance although nothing is published and no creation is running", o.K, o.N))
				case dc == nil || dc.s != want:
					have := "a foreign instance"
					if dc != nil {
						have = dc.s
					}
					w.viol = append(w.viol, fmt.Sprintf("%s(%s) during creation attempt %d returned %s, not the early reference of this attempt", o.K, o.N, w.attempts[o.N], have))
				}
			}
		case "AF":
			// the creation routine exposes the name a second time (registers its early-reference factory
			// again) while the creation is running: whatever was handed out before stays the early reference
			if !w.inCreat[o.N] {
				continue // a factory only exposes a name it is creating
			}
			attempt, name := w.attempts[o.N], o.N
			w.earlyFails[name] = false
			w.reg.AddSingletonFactory(name, container.FuncSingletonFactory(func() (*cd.Meta, error) {
				return cd.NewMeta(&dummyComp{fmt.Sprintf("early-%s#%d", name, attempt)}), nil
			}))
		case "AD":
			// direct publication (AddSingleton) of a fresh instance, possibly for a name whose
			// creation is still running
			m := cd.NewMeta(&dummyComp{"added-" + o.N})
			w.reg.AddSingleton(o.N, m)
			if w.inCreat[o.N] {
				w.addedDuring[o.N] = true
			} else {
				w.pubs[o.N] = m
				w.failedN[o.N] = false
			}
		case "CR":
			if w.inCreat[o.N] {
				continue // re-entrant creation of a name in creation is never issued by the factory
			}
			o := o
			ran := false
			var produced *cd.Meta
			got, err := w.reg.GetSingletonOrCreateByFactory(o.N, container.FuncSingletonFactory(func() (*cd.Meta, error) {
				ran = true
				w.inCreat[o.N] = true
				w.failedN[o.N] = false
				w.attempts[o.N]++
				attempt := w.attempts[o.N]
				w.earlyFails[o.N] = o.EarlyF
				w.reg.AddSingletonFactory(o.N, container.FuncSingletonFactory(func() (*cd.Meta, error) {
					if o.EarlyF {
						return nil, errors.New("early factory fails")
					}
					return cd.NewMeta(&dummyComp{fmt.Sprintf("early-%s#%d", o.N, attempt)}), nil
				}))
				w.states[w.tr.Canon(c04Names)] = true
				w.exec(o.Body)
				if o.Fail {
					return nil, errors.New("creation fails")
				}
				produced = cd.NewMeta(&dummyComp{"final-" + o.N})
				return produced, nil
			}))
			w.inCreat[o.N] = false
			if w.addedDuring[o.N] {
				// the name was published directly while its creation ran: which of the two
				// instances wins is not fixed by the property; afterwards it must be stable
				w.addedDuring[o.N] = false
				if err == nil {
					if now, e2 := w.reg.GetSingleton(o.N, false); e2 == nil && now != nil {
						w.pubs[o.N] = now
						if got != now {
							w.viol = append(w.viol, fmt.Sprintf("Create(%s) returned another instance than the one published afterwards", o.N))
						}
					}
				} else {
					w.failedN[o.N] = false
					delete(w.pubs, o.N)
					if now, e2 := w.reg.GetSingleton(o.N, false); e2 == nil && now != nil {
						w.pubs[o.N] = now
					}
				}
				if w.reg.IsSingletonCurrentlyInCreation(o.N) {
					w.viol = append(w.viol, fmt.Sprintf("'%s' is still reported as in creation after Create(%s) returned", o.N, o.N))
				}
				continue
			}
			if p := w.pubs[o.N]; p != nil {
				if ran || got != p || err != nil {
					w.viol = append(w.viol, fmt.Sprintf("Create(%s) on a published name: factory re-run=%v, same instance=%v", o.N, ran, got == p))
				}
				continue
			}
			if !ran {
				w.viol = append(w.viol, fmt.Sprintf("Create(%s) did not run the creation factory although nothing is published (stale state of an earlier attempt?)", o.N))
				continue
			}
			if o.Fail {
				w.failedN[o.N] = true
				if err == nil {
					w.viol = append(w.viol, fmt.Sprintf("Create(%s) with a failing factory returned nil error", o.N))
				}
			} else {
				if err != nil || got != produced {
					w.viol = append(w.viol, fmt.Sprintf("Create(%s) did not return the instance its factory produced", o.N))
				}
				w.pubs[o.N] = produced
			}
		}
		w.states[w.tr.Canon(c04Names)] = true
	}
}

func c04Size(ops []c04Op) int {
	n := 0
	for _, o := range ops {
		n += 1 + c04Size(o.Body)
	}
	return n
}

// c04Seqs streams every op sequence of total size <= budget and nesting <= depth.
func c04Seqs(depth, budget int, prefix []c04Op, yield func([]c04Op) bool) bool {
	if !yield(prefix) {
		return false
	}
	if budget == 0 {
		return true
	}
	for _, n := range c04Names {
		for _, k := range []string{"G0", "G1", "IC", "AD", "AF"} {
			if !c04Seqs(depth, budget-1, append(prefix[:len(prefix):len(prefix)], c04Op{K: k, N: n}), yield) {
				return false
			}
		}
	}
	if depth > 0 {
		for _, n := range c04Names {
			for b := 0; b <= budget-1; b++ {
				for _, body := range c04Bodies(depth-1, b) {
					for _, fail := range []bool{false, true} {
						for _, ef := range []bool{false, true} {
							o := c04Op{K: "CR", N: n, Body: body, Fail: fail, EarlyF: ef}
							if !c04Seqs(depth, budget-1-b, append(prefix[:len(prefix):len(prefix)], o), yield) {
								return false
							}
						}
					}
				}
			}
		}
	}
	return true
}

var c04BodyMemo = map[[2]int][][]c04Op{}

func c04Bodies(depth, size int) [][]c04Op {
	k := [2]int{depth, size}
	if v, ok := c04BodyMemo[k]; ok {
		return v
	}
	var out [][]c04Op
	c04Seqs(depth, size, nil, func(s []c04Op) bool {
		if c04Size(s) == size {
			out = append(out, append([]c04Op{}, s...))
		}
		return true
	})
	c04BodyMemo[k] = out
	return out
}

func c04Trees(c *core.Ctx) {
	depth, budget := 2, 4
	if c.Thorough() {
		depth, budget = 3, 5
	}
	states := map[string]bool{}
	gen := func(yield func(c04Case) bool) {
		c04Seqs(depth, budget, nil, func(s []c04Op) bool { return yield(c04Case{append([]c04Op{}, s...)}) })
	}
	Cases(c, gen, func(c *core.Ctx, cs c04Case) {
		tr := scen.NewTraceSCR(64, 1<<30)
		w := &c04World{tr: tr, states: states, inCreat: map[string]bool{}, pubs: map[string]*cd.Meta{}, failedN: map[string]bool{}, addedDuring: map[string]bool{}, attempts: map[string]int{}, earlyFails: map[string]bool{}}
		w.reg = tr.Wrap(support.DefaultSingletonComponentRegistry())
		w.exec(cs.Ops)
		c.S.Evaluations++
		c.S.Programs++
		c.S.Transitions += w.trans
		s := fmt.Sprint(cs.Ops)
		if strings.Contains(s, "ERR") || strings.Contains(s, "{CR") || strings.Contains(s, ";CR") {
			c.S.Nontrivial++
		}
		viol := append(append([]string{}, w.viol...), tr.Viol...)
		if len(viol) > 0 {
			c.Outcome("violation")
			c.Report("C04/optree/"+core.Hash(cs.Ops), "cache-protocol", fmt.Sprintf("history %v: %s", cs.Ops, viol[0]), cs)
		} else {
			c.Outcome(fmt.Sprintf("ok/ops=%d", c04Size(cs.Ops)))
		}
		if c.S.Evaluations%5000 == 1 {
			c.Sample(map[string]any{"history": fmt.Sprint(cs.Ops)})
		}
	})
	// distinct abstract states are counted per worker over its share (the orchestrator adds them
	// up: an upper bound on the distinct states of the whole exploration, each visited for real)
	c.S.States = int64(len(states))
	c.S.Extra["abstract_states_this_worker_max"] = int64(len(states))
}

// ---- layers 2 and 3: real starts with single faults, then repeated lookups

type c04StartCase struct {
	scen.GraphProg
	Bound int `json:"bound"`
}

func c04StartGen(c *core.Ctx) func(yield func(c04StartCase) bool) {
	return func(yield func(c04StartCase) bool) {
		three := []int{scen.ENone, scen.EName, scen.ESlice}
		allGraphs(3, three, false, func(e [][]int) bool {
			for lz := 0; lz < 8; lz++ {
				if !c.Thorough() && lz&(lz-1) != 0 {
					continue
				}
				lazy := []bool{lz&1 == 1, lz&2 == 2, lz&4 == 4}
				p := scen.GraphProg{N: 3, Edges: e, Lazy: lazy, Obs: 1, Faults: true, Kinds: "F", Family: "n3-fault1"}
				if !yield(c04StartCase{p, 1}) {
					return false
				}
			}
			return true
		})
		// look-ups inside Init whose errors the caller ignores (one or two from the same node), every
		// reached callback failing once: a failed creation in the middle of a running one
		var lookups [][][]int
		for i := 0; i < 3; i++ {
			for j := 0; j < 3; j++ {
				if i == j {
					continue
				}
				lookups = append(lookups, [][]int{{i, j}})
				if k := 3 - i - j; k > j {
					lookups = append(lookups, [][]int{{i, j}, {i, k}}, [][]int{{i, k}, {i, j}})
				}
			}
		}
		allGraphs(3, []int{scen.ENone, scen.EName}, false, func(e [][]int) bool {
			for _, lz := range []int{0, 2, 4, 6} {
				for _, lk := range lookups {
					p := scen.GraphProg{N: 3, Edges: e, Lazy: []bool{false, lz&2 == 2, lz&4 == 4}, Obs: 1, Faults: true, Kinds: "F", Family: "n3-lookup-fault1",
						InitLookup: lk, SwallowLookup: true}
					if !yield(c04StartCase{p, 1}) {
						return false
					}
				}
			}
			return true
		})
	}
}

func c04Starts(c *core.Ctx) {
	first := true
	Cases(c, c04StartGen(c), func(c *core.Ctx, cs c04StartCase) {
		p := &cs.GraphProg
		body := func(ch *envx.Chooser) {
			o := scen.RunGraph(p, ch)
			c.S.Evaluations++
			c.S.States++
			cc := cs
			cc.Choices = ch.Choices()
			key := func(kind string) string {
				return "C04/" + kind + "/" + core.Hash(p.N, p.Edges, p.Lazy, p.InitLookup, cc.Choices)
			}
			if o.Panic != "" || o.Abort != "" {
				c.Outcome("crash")
				return // C09 / C02 territory
			}
			// layer 3: look every name up three times, whatever the start did
			detail := ""
			abort, pan := scen.Guard(func() {
				o.RT.Install()
				defer scen.Uninstall()
				for round := 0; round < 3 && detail == ""; round++ {
					for i := 0; i < p.N; i++ {
						nm := scen.Name(i, p.N)
						v, err := o.App.GetComponentByName(nm)
						if err == nil && !o.Trace.Published(nm) {
							detail = fmt.Sprintf("lookup %d of %s returned %s with nil error although no creation of %s ever completed (events: %s)", round+1, nm, describe(v), nm, strings.Join(o.RT.Log, " "))
							break
						}
					}
				}
			})
			c.S.Transitions += int64(o.Trace.Calls)
			if abort != "" || pan != "" {
				c.Outcome("lookup-crash")
				return
			}
			if detail == "" && len(o.Trace.Viol) > 0 {
				detail = o.Trace.Viol[0]
			}
			if detail != "" {
				c.Outcome("violation")
				c.Report(key("start"), "cache-protocol", fmt.Sprintf("armed=%v: %s", o.RT.Armed, detail), cc)
				return
			}
			if o.Err != nil {
				c.Outcome("start-failed/lookups-consistent")
			} else {
				c.Outcome("start-ok/lookups-consistent")
			}
		}
		if c.ReplayCase != nil {
			body(envx.Fixed(p.Kinds, cs.Choices))
			return
		}
		if first {
			first = false
			a, b := scen.RunGraph(p, envx.Fixed(p.Kinds, nil)), scen.RunGraph(p, envx.Fixed(p.Kinds, nil))
			if graphSig(a) != graphSig(b) || fmt.Sprint(a.RT.Log) != fmt.Sprint(b.RT.Log) {
				panic(envx.Divergence{Msg: "two runs of the same program differ"})
			}
			c.S.DeterminismOK = true
		}
		c.S.Programs++
		c.S.Nontrivial++
		st := envx.Explore(envx.Options{Kinds: p.Kinds, Bound: cs.Bound, Stop: c.Expired}, body)
		if st.Truncated {
			c.Cap("exploration of a program truncated by the budget")
		}
		if c.S.Programs%500 == 1 {
			c.Sample(map[string]any{"program": p, "executions_with_single_faults": st.Execs})
		}
	})
}

// ---- a creation request for a name that is already in creation, answered from that name's early
// reference (the one re-entrant request that leaves a consistent history: the factory of the nested
// request resolves to the early reference and the outer creation returns it too). Whatever the
// registry answers to the nested request, the early reference handed out before stays what every
// look-up observes, and it is what is published in the end.

type c04ReentCase struct {
	Before   bool `json:"lookup_before_the_nested_request"`
	ViaOther bool `json:"nested_inside_the_creation_of_another_name"`
	AfterIn  int  `json:"lookup_after_the_request"` // 0 none, 1 without early references, 2 with
	AfterOut int  `json:"lookup_before_returning"`  // 0 none, 1 without early references, 2 with
}

func c04Reentrant(c *core.Ctx) {
	gen := func(yield func(c04ReentCase) bool) {
		for _, before := range []bool{true, false} {
			for _, via := range []bool{false, true} {
				for ai := 0; ai < 3; ai++ {
					for ao := 0; ao < 3; ao++ {
						if !yield(c04ReentCase{before, via, ai, ao}) {
							return
						}
					}
				}
			}
		}
	}
	Cases(c, gen, func(c *core.Ctx, cs c04ReentCase) {
		r := support.DefaultSingletonComponentRegistry()
		early := cd.NewMeta(&dummyComp{"early-x"})
		runs := 0
		var viol []string
		seen := false // the early reference has been handed out
		look := func(allow bool, when string) {
			got, err := r.GetSingleton("x", allow)
			c.S.Transitions++
			switch {
			case err != nil:
				viol = append(viol, fmt.Sprintf("look-up (early references allowed: %v) %s failed: %v", allow, when, err))
			case got != nil && got != early:
				viol = append(viol, fmt.Sprintf("look-up (early references allowed: %v) %s returned another object than the early reference", allow, when))
			case got == nil && (seen || allow):
				viol = append(viol, fmt.Sprintf("look-up (early references allowed: %v) %s returned nothing although the early reference %s", allow, when, map[bool]string{true: "had been handed out before", false: "factory is registered"}[seen]))
			}
			if got == early {
				seen = true
			}
		}
		nested := func() {
			if cs.Before {
				look(true, "before the nested request")
			}
			// the outcome of the nested request is ignored by the requester
			_, _ = r.GetSingletonOrCreateByFactory("x", container.FuncSingletonFactory(func() (*cd.Meta, error) {
				m, err := r.GetSingleton("x", true)
				if m == early {
					seen = true
				}
				return m, err
			}))
			c.S.Transitions++
			if cs.AfterIn > 0 {
				look(cs.AfterIn == 2, "after the nested request")
			}
		}
		created, err := r.GetSingletonOrCreateByFactory("x", container.FuncSingletonFactory(func() (*cd.Meta, error) {
			r.AddSingletonFactory("x", container.FuncSingletonFactory(func() (*cd.Meta, error) {
				runs++
				return early, nil
			}))
			if cs.ViaOther {
				if _, err := r.GetSingletonOrCreateByFactory("y", container.FuncSingletonFactory(func() (*cd.Meta, error) {
					nested()
					return cd.NewMeta(&dummyComp{"final-y"}), nil
				})); err != nil {
					return nil, err
				}
			} else {
				nested()
			}
			if cs.AfterOut > 0 {
				look(cs.AfterOut == 2, "before the outer creation returns")
			}
			return early, nil
		}))
		c.S.Evaluations++
		c.S.Programs++
		c.S.States++
		c.S.Nontrivial++
		c.S.Transitions += 4
		switch {
		case err != nil || created != early:
			viol = append(viol, fmt.Sprintf("the creation returned %p (err=%v), its factory produced the early reference %p", created, err, early))
		case runs > 1:
			viol = append(viol, fmt.Sprintf("the early-reference factory ran %d times", runs))
		case r.IsSingletonCurrentlyInCreation("x") || r.IsSingletonCurrentlyInCreation("y"):
			viol = append(viol, "a name is still reported as in creation after every creation returned")
		default:
			for _, allow := range []bool{true, false} {
				if got, e := r.GetSingleton("x", allow); e != nil || got != created {
					viol = append(viol, fmt.Sprintf("after completion a look-up (early references allowed: %v) does not return the published instance", allow))
				}
			}
		}
		if len(viol) > 0 {
			c.Outcome("reentrant/violation")
			c.Report("C04/reentrant/"+core.Hash(cs), "cache-protocol", fmt.Sprintf("history %+v: %s", cs, viol[0]), cs)
			return
		}
		c.Outcome("reentrant/one-early-reference")
		c.Sample(map[string]any{"case": cs, "factory_runs": runs})
	})
}
