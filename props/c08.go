package props

import (
	"fmt"
	"github.com/go-kid/ioc/app"
	"github.com/go-kid/ioc/configure/loader"
	"github.com/go-kid/ioc/container/processors"
	"reflect"
	"sort"
	"strings"

	"verif/internal/core"
	"verif/internal/envx"
	"verif/internal/scen"
)

func init() {
	register(&Driver{
		ID:        "C08",
		Technique: "exhaustive enumeration of provider populations (primary / naming / declared qualifier) x holder shapes (field kinds, qualifier arguments, optional no-candidate fields in every position) x every permutation of the candidate iteration order, each a real start; per-field ranking reference model",
		Rule:      "providers = multisets of size <=3 over {plain,primary} x {custom,default name} x qualifier {undeclared,\"\",g1,g2}; holders (reflect.StructOf) = (a) single+slice field with one of six qualifier arguments and an optional no-candidate field at every position, (b) two single fields with independent qualifier arguments in both orders, (c) optional variants; every permutation of the provider iteration order; non-trivial = >=2 candidates survive the qualifier, or none. Families added in later rounds (look-ups inside Init, retries after an abandoned attempt, user extension points at every Order, several containers, odd names / types / values) are listed per part in this file and described in MANIFEST.json (level_claimed.text) and DESIGN §7",
		Assumptions: []string{
			"with two or more Primary candidates, or no Primary and several default-named candidates, any surviving candidate is accepted (the statement only fixes unique winners)",
			"populations of more than three providers are not covered (thorough: four for family (a) without the optional field)",
		},
		Parts: []Part{
			{Name: "ranking", Run: func(c *core.Ctx) { resolveRun(c, "C08") }, QuickS: 420, ThoroughS: 1500},
			{Name: "late-qualifier", Run: c08Late, Workers: 1, QuickS: 30, ThoroughS: 30},
		},
	})
}

var qualArgs = []string{"", ",qualifier", ",qualifier=g1", ",qualifier=g2", ",qualifier=g1 g2", ",qualifier=g3"}
var qualSets = map[string][]string{"": nil, ",qualifier": {""}, ",qualifier=g1": {"g1"}, ",qualifier=g2": {"g2"}, ",qualifier=g1 g2": {"g1", "g2"}, ",qualifier=g3": {"g3"}}

// qField describes one holder field.
type qField struct {
	Kind string `json:"kind"` // single, slice, missing (optional field of a type nobody provides)
	Qual string `json:"qual"`
	Opt  bool   `json:"optional,omitempty"`
	// Ptr: the field is declared with the pointer type of one provider type (PlainNQ, PlainQ, PrimNQ,
	// PrimQ) instead of the interface: its candidates are the providers of exactly that type
	Ptr string `json:"pointer_to,omitempty"`
	// Name: text written where a by-name point has its name; every one of them resolves to the empty
	// text (a placeholder of an absent key with an empty default, an expression yielding ""), so the
	// point is a by-type point like one written without a name
	Name string `json:"name_text,omitempty"`
}

var qPtrTypes = map[string]reflect.Type{
	"PlainNQ": reflect.TypeOf((*scen.PlainNQ)(nil)), "PlainQ": reflect.TypeOf((*scen.PlainQ)(nil)),
	"PrimNQ": reflect.TypeOf((*scen.PrimNQ)(nil)), "PrimQ": reflect.TypeOf((*scen.PrimQ)(nil)),
}

type resolveCase struct {
	Pop    []scen.QProv `json:"providers"`
	Fields []qField     `json:"fields"`
	Family string       `json:"family"`
	// Resolver: the exported by-type resolving processor is registered next to the built-in one
	// (every by-type candidate is then listed twice); only single-valued points in this family
	Resolver bool `json:"second_resolver,omitempty"`
	// replay: the one order that failed
	Perm    []int `json:"perm,omitempty"`
	Choices []int `json:"choices,omitempty"`
}

var (
	tIQ      = reflect.TypeOf((*scen.IQ)(nil)).Elem()
	tIQs     = reflect.SliceOf(tIQ)
	tMissing = reflect.TypeOf((*scen.Missing)(nil)).Elem()
)

func qPops(max int) [][]scen.QProv {
	var attrs []scen.QProv
	for _, prim := range []bool{false, true} {
		for _, named := range []bool{false, true} {
			for _, q := range []string{"-", "", "g1", "g2", "G1"} { // "G1": differs from g1 in case only
				attrs = append(attrs, scen.QProv{Prim: prim, Named: named, Q: q})
			}
		}
	}
	var pops [][]scen.QProv
	var rec func(start int, cur []scen.QProv)
	rec = func(start int, cur []scen.QProv) {
		if len(cur) > 0 {
			dup := map[string]bool{}
			for _, p := range cur {
				if !p.Named {
					if dup[p.TypeKey()] {
						return
					}
					dup[p.TypeKey()] = true
				}
			}
			pops = append(pops, append([]scen.QProv{}, cur...))
		}
		if len(cur) == max {
			return
		}
		for i := start; i < len(attrs); i++ {
			rec(i, append(cur[:len(cur):len(cur)], attrs[i]))
		}
	}
	rec(0, nil)
	return pops
}

func resolveGen(c *core.Ctx) func(yield func(resolveCase) bool) {
	return func(yield func(resolveCase) bool) {
		pops3, pops2 := qPops(3), qPops(2)
		miss := qField{Kind: "missing", Opt: true}
		// (a) single + slice with the same qualifier argument, optional no-candidate field at every position
		for _, pop := range pops3 {
			for _, qa := range qualArgs {
				s, l := qField{Kind: "single", Qual: qa}, qField{Kind: "slice", Qual: qa}
				for _, fs := range [][]qField{{s, l}, {miss, s, l}, {s, miss, l}, {s, l, miss}} {
					if !yield(resolveCase{Pop: pop, Fields: fs, Family: "a"}) {
						return
					}
				}
			}
		}
		// (a') the same shapes for the populations of <= 2 providers with custom names that sort before
		// the default names (the container enumerates candidates by name: which of two candidates comes
		// first must not matter)
		for _, pop := range pops2 {
			anyNamed := false
			early := append([]scen.QProv{}, pop...)
			for i := range early {
				early[i].First = early[i].Named
				anyNamed = anyNamed || early[i].Named
			}
			if !anyNamed {
				continue
			}
			for _, qa := range qualArgs {
				s, l := qField{Kind: "single", Qual: qa}, qField{Kind: "slice", Qual: qa}
				for _, fs := range [][]qField{{s, l}, {miss, s, l}} {
					if !yield(resolveCase{Pop: early, Fields: fs, Family: "a-names-first"}) {
						return
					}
				}
			}
		}
		// (b) two single fields with independent qualifier arguments (both orders arise from the product)
		for _, pop := range pops2 {
			for _, q1 := range qualArgs {
				for _, q2 := range qualArgs {
					fs := []qField{{Kind: "single", Qual: q1}, {Kind: "slice", Qual: q2}, {Kind: "single", Qual: q2}}
					if !yield(resolveCase{Pop: pop, Fields: fs, Family: "b"}) {
						return
					}
				}
			}
		}
		// (e) points declared with the pointer type of one provider type: the same ranking among the
		// providers of exactly that type (at least two of them), next to an interface-typed point
		for _, pop := range pops3 {
			cnt := map[string]int{}
			for _, p := range pop {
				cnt[p.TypeKey()]++
			}
			for _, tk := range []string{"PlainNQ", "PlainQ", "PrimNQ", "PrimQ"} {
				if cnt[tk] < 2 {
					continue
				}
				for _, qa := range qualArgs {
					ps, pl := qField{Kind: "single", Qual: qa, Ptr: tk}, qField{Kind: "slice", Qual: qa, Ptr: tk}
					is := qField{Kind: "single", Qual: qa}
					// once with custom names that sort after the default names, once with names that sort before
					early := append([]scen.QProv{}, pop...)
					for i := range early {
						early[i].First = early[i].Named
					}
					for _, pp := range [][]scen.QProv{pop, early} {
						for _, fs := range [][]qField{{ps, pl}, {is, ps}, {qField{Kind: "single", Qual: qa, Ptr: tk, Opt: true}, pl}} {
							if !yield(resolveCase{Pop: pp, Fields: fs, Family: "e"}) {
								return
							}
						}
					}
				}
			}
		}
		// (f) the name part of the tag is a placeholder / an expression that resolves to nothing: a
		// by-type point, ranked like one written without a name, next to such a one
		for _, pop := range pops3 {
			for _, qa := range qualArgs {
				for _, nm := range []string{"${c8nokey:}", "${c8nokey:${c8other:}}"} {
					s, l, plain := qField{Kind: "single", Qual: qa, Name: nm}, qField{Kind: "slice", Qual: qa, Name: nm}, qField{Kind: "single", Qual: qa}
					for _, fs := range [][]qField{{s, l}, {plain, s}} {
						if !yield(resolveCase{Pop: pop, Fields: fs, Family: "f"}) {
							return
						}
					}
				}
			}
		}
		// (c) optional points with qualifier arguments, before and after a required one
		for _, pop := range pops2 {
			for _, q1 := range qualArgs {
				for _, kind := range []string{"single", "slice"} {
					o := qField{Kind: kind, Qual: q1, Opt: true}
					r := qField{Kind: "single", Qual: ""}
					for _, fs := range [][]qField{{o}, {o, r}, {r, o}} {
						if !yield(resolveCase{Pop: pop, Fields: fs, Family: "c"}) {
							return
						}
					}
				}
			}
		}
		// (d) single-valued points while a second by-type resolver is registered
		for _, pop := range pops3 {
			for _, q1 := range qualArgs {
				if !yield(resolveCase{Pop: pop, Fields: []qField{{Kind: "single", Qual: q1}}, Family: "d", Resolver: true}) {
					return
				}
				if len(pop) > 2 {
					continue
				}
				for _, q2 := range qualArgs {
					if !yield(resolveCase{Pop: pop, Fields: []qField{{Kind: "single", Qual: q1}, {Kind: "single", Qual: q2, Opt: true}}, Family: "d", Resolver: true}) {
						return
					}
				}
			}
		}
		if !c.Thorough() {
			return
		}
		// three independently qualified fields
		for _, pop := range pops3 {
			if len(pop) < 2 {
				continue
			}
			for _, q1 := range qualArgs {
				for _, q2 := range qualArgs {
					for _, q3 := range qualArgs[:4] {
						fs := []qField{{Kind: "single", Qual: q1}, {Kind: "single", Qual: q2, Opt: true}, {Kind: "slice", Qual: q3}}
						if !yield(resolveCase{Pop: pop, Fields: fs, Family: "b3"}) {
							return
						}
					}
				}
			}
		}
		for _, pop := range qPops(4) {
			if len(pop) < 4 {
				continue
			}
			for _, qa := range qualArgs {
				fs := []qField{{Kind: "single", Qual: qa}, {Kind: "slice", Qual: qa}}
				if !yield(resolveCase{Pop: pop, Fields: fs, Family: "a4"}) {
					return
				}
			}
		}
	}
}

// qRef is the per-field reference: R = surviving candidates; allowed = admissible winners of a
// single-valued point; tied = several winners admissible.
func qRef(pop []scen.QProv, f qField) (R, allowed []int) {
	if f.Kind == "missing" {
		return nil, nil
	}
	req, hasQ := qualSets[f.Qual], f.Qual != ""
	for i, p := range pop {
		if f.Ptr != "" && p.TypeKey() != f.Ptr {
			continue
		}
		if hasQ {
			ok := false
			for _, r := range req {
				if p.Q != "-" && p.Q == r {
					ok = true
				}
			}
			if !ok {
				continue
			}
		}
		R = append(R, i)
	}
	var prims, unnamed []int
	for _, i := range R {
		if pop[i].Prim {
			prims = append(prims, i)
		}
		if !pop[i].Named {
			unnamed = append(unnamed, i)
		}
	}
	allowed = R
	if len(prims) == 1 {
		allowed = prims
	} else if len(prims) == 0 && len(unnamed) == 1 {
		allowed = unnamed
	}
	return
}

type resolveExec struct {
	sig   string // order-independent signature (tied single points masked)
	viols []string
}

// resolveOnce runs one start of the case under the given provider iteration order.
func resolveOnce(c *core.Ctx, cs resolveCase, perm []int, ch *envx.Chooser) (resolveExec, *scen.StartObs) {
	var fields []reflect.StructField
	for i, f := range cs.Fields {
		tag := f.Name + f.Qual
		if f.Opt {
			tag += ",required=false"
		}
		sf := reflect.StructField{Name: fmt.Sprintf("F%d", i), Tag: reflect.StructTag(fmt.Sprintf(`wire:"%s"`, tag))}
		switch {
		case f.Kind == "single" && f.Ptr != "":
			sf.Type = qPtrTypes[f.Ptr]
		case f.Kind == "slice" && f.Ptr != "":
			sf.Type = reflect.SliceOf(qPtrTypes[f.Ptr])
		case f.Kind == "single":
			sf.Type = tIQ
		case f.Kind == "slice":
			sf.Type = tIQs
		default:
			sf.Type = tMissing
		}
		fields = append(fields, sf)
	}
	holder := reflect.New(reflect.StructOf(fields))
	comps := make([]any, len(cs.Pop))
	user := map[string]bool{}
	names := make([]string, len(cs.Pop))
	for i, p := range cs.Pop {
		comps[i] = scen.BuildQ(p, i)
		names[i] = p.RegName(i)
		user[names[i]] = true
	}
	var base []string
	var reg []any
	for _, i := range perm {
		base = append(base, names[i])
		reg = append(reg, comps[i]) // registration order follows the same permutation
	}
	reg = append(reg, holder.Interface())
	if cs.Resolver {
		reg = append(reg, processors.NewDependencyTypeAwarePostProcessors())
	}
	o := scen.Start(scen.StartSpec{Ch: ch, Comps: reg, User: user, Base: base})
	var ex resolveExec
	if o.Panic != "" || o.Abort != "" || len(o.ChildPanics) > 0 {
		ex.sig = "panic"
		ex.viols = append(ex.viols, "start-up panicked / did not terminate: "+o.Panic+o.Abort)
		return ex, o
	}
	mustFail := ""
	for i, f := range cs.Fields {
		R, _ := qRef(cs.Pop, f)
		if len(R) == 0 && !f.Opt {
			mustFail = fmt.Sprintf("required field F%d (%s `%s`) has no candidate carrying a requested qualifier", i, f.Kind, f.Qual)
		}
	}
	if o.Err != nil {
		ex.sig = "fail"
		if mustFail == "" {
			ex.viols = append(ex.viols, "every required field has candidates but start-up failed: "+scen.FirstLine(o.Err))
		}
		return ex, o
	}
	if mustFail != "" {
		ex.sig = "ok?"
		ex.viols = append(ex.viols, "start-up succeeded although "+mustFail)
		return ex, o
	}
	var sb strings.Builder
	sb.WriteString("ok")
	for i, f := range cs.Fields {
		R, allowed := qRef(cs.Pop, f)
		v := holder.Elem().Field(i)
		switch f.Kind {
		case "missing":
			if !v.IsNil() {
				ex.viols = append(ex.viols, fmt.Sprintf("F%d (no provider exists) was set", i))
			}
		case "single":
			got := scen.IdOf(v.Interface())
			if len(R) == 0 {
				if got != "-" {
					ex.viols = append(ex.viols, fmt.Sprintf("optional F%d has no surviving candidate but holds %s", i, got))
				}
				sb.WriteString("|-")
				break
			}
			ok := false
			for _, a := range allowed {
				if got == fmt.Sprintf("x%d", a) {
					ok = true
				}
			}
			if !ok {
				ex.viols = append(ex.viols, fmt.Sprintf("single F%d `%s` holds %s; admissible by qualifier/primary/naming rules: %v of providers %v", i, f.Qual, got, allowed, cs.Pop))
			}
			if len(allowed) == 1 {
				sb.WriteString("|" + got)
			} else {
				sb.WriteString("|tie")
			}
		case "slice":
			got := scen.IdsOf(v.Interface())
			sort.Strings(got)
			var want []string
			for _, r := range R {
				want = append(want, fmt.Sprintf("x%d", r))
			}
			sort.Strings(want)
			if fmt.Sprint(got) != fmt.Sprint(want) {
				ex.viols = append(ex.viols, fmt.Sprintf("slice F%d `%s` holds %v, want exactly %v", i, f.Qual, got, want))
			}
			sb.WriteString("|" + strings.Join(got, ","))
		}
	}
	ex.sig = sb.String()
	return ex, o
}

// resolveRun is shared by C08 (reference oracle per execution) and C10 (differential oracle
// across all orders of one program).
func resolveRun(c *core.Ctx, prop string) {
	Cases(c, resolveGen(c), func(c *core.Ctx, cs resolveCase) {
		if c.ReplayCase != nil {
			ex, _ := resolveOnce(c, cs, cs.Perm, envx.Fixed("P", cs.Choices))
			c.S.Evaluations++
			for _, v := range ex.viols {
				if prop == "C08" {
					c.Report(prop+"/replay", "ranking", v, cs)
				}
			}
			if prop == "C10" {
				ex0, _ := resolveOnce(c, cs, scen.NthPerm(len(cs.Pop), 0), envx.Fixed("", nil))
				if ex0.sig != ex.sig {
					c.Report(prop+"/replay", "order-dependent", fmt.Sprintf("outcome %q under order %v, %q under the identity order", ex.sig, cs.Perm, ex0.sig), cs)
				}
			}
			return
		}
		c.S.Programs++
		nt := false
		for _, f := range cs.Fields {
			R, _ := qRef(cs.Pop, f)
			if f.Kind != "missing" && len(R) != 1 {
				nt = true
			}
		}
		if nt {
			c.S.Nontrivial++
		}
		sigs := map[string][]int{}
		var firstSig string
		n := len(cs.Pop)
		for k := 0; k < factorialInt(n); k++ {
			perm := scen.NthPerm(n, k)
			ex, o := resolveOnce(c, cs, perm, envx.Fixed("", nil))
			c.S.Evaluations++
			c.S.States++
			c.S.Transitions += int64(o.Trace.Calls)
			c.Outcome(cs.Family + "/" + strings.SplitN(ex.sig, "|", 2)[0])
			if k == 0 {
				firstSig = ex.sig
			}
			if _, seen := sigs[ex.sig]; !seen {
				sigs[ex.sig] = perm
			}
			if prop == "C08" && len(ex.viols) > 0 {
				cc := cs
				cc.Perm = perm
				c.Report("C08/ranking/"+core.Hash(cs.Pop, cs.Fields, cs.Resolver), "ranking", fmt.Sprintf("order %v: %s", perm, ex.viols[0]), cc)
			}
		}
		if prop == "C10" && len(sigs) > 1 {
			var other string
			for s := range sigs {
				if s != firstSig {
					other = s
				}
			}
			cc := cs
			cc.Perm = sigs[other]
			c.Report("C10/order/"+core.Hash(cs.Pop, cs.Fields, cs.Resolver), "order-dependent",
				fmt.Sprintf("providers %v, fields %v: outcome %q under the identity order but %q under iteration/registration order %v (tied points are masked)", cs.Pop, cs.Fields, firstSig, other, sigs[other]), cc)
		}
		if c.S.Programs%3000 == 1 {
			c.Sample(map[string]any{"providers": fmt.Sprint(cs.Pop), "fields": cs.Fields, "orders_run": factorialInt(n), "signature": firstSig})
		}
	})
}

// ---- qualifiers that a provider only has after its own configuration was bound (it is created
// before the holder): the filter asks the component when the point is resolved

type c8LateA struct {
	scen.QBase
	Grp string `value:"${grp.a}"`
}

func (p *c8LateA) Qualifier() string { return p.Grp }

type c8LateB struct {
	scen.QBase
	Grp string `value:"${grp.b}"`
}

func (p *c8LateB) Qualifier() string { return p.Grp }

type c8LateHolder struct {
	F scen.IQ   `wire:",qualifier=rw,required=false"`
	S []scen.IQ `wire:",qualifier=rw,required=false"`
	T []scen.IQ `wire:",qualifier=ro,required=false"`
}

func (*c8LateHolder) Naming() string { return "zz-holder" }

type c8LateCase struct {
	A string `json:"group_of_a"`
	B string `json:"group_of_b"`
}

func c08Late(c *core.Ctx) {
	gen := func(yield func(c8LateCase) bool) {
		for _, a := range []string{"rw", "ro", "other"} {
			for _, b := range []string{"rw", "ro", "other"} {
				if !yield(c8LateCase{a, b}) {
					return
				}
			}
		}
	}
	Cases(c, gen, func(c *core.Ctx, cs c8LateCase) {
		pa, pb := &c8LateA{QBase: scen.QBase{Id: "x0", Name: "a1"}}, &c8LateB{QBase: scen.QBase{Id: "x1", Name: "a2"}}
		h := &c8LateHolder{}
		doc := fmt.Sprintf("grp:\n  a: %s\n  b: %s\n", cs.A, cs.B)
		o := scen.Start(scen.StartSpec{Ch: envx.Fixed("", nil), Comps: []any{h, pb, pa}, Opts: []app.SettingOption{app.SetConfigLoader(loader.NewRawLoader([]byte(doc)))}})
		c.S.Evaluations++
		c.S.Programs++
		c.S.States++
		c.S.Nontrivial++
		c.S.Transitions += int64(o.Trace.Calls)
		key := "C08/late-qualifier/" + core.Hash(cs)
		want := func(g string) []string {
			var out []string
			if cs.A == g {
				out = append(out, "x0")
			}
			if cs.B == g {
				out = append(out, "x1")
			}
			return out
		}
		desc := fmt.Sprintf("providers a1 (qualifier bound from configuration: %s) and a2 (%s), created before the holder", cs.A, cs.B)
		if !o.OK() {
			c.Outcome("late/failed")
			c.Report(key, "ranking", desc+": every point is optional but start-up failed: "+scen.FirstLine(o.Err)+o.Panic+o.Abort, cs)
			return
		}
		gs, gt := scen.IdsOf(h.S), scen.IdsOf(h.T)
		sort.Strings(gs)
		sort.Strings(gt)
		f := scen.IdOf(h.F)
		okF := len(want("rw")) == 0 && f == "-"
		for _, w := range want("rw") {
			okF = okF || f == w
		}
		switch {
		case fmt.Sprint(gs) != fmt.Sprint(want("rw")) || fmt.Sprint(gt) != fmt.Sprint(want("ro")):
			c.Outcome("late/slices")
			c.Report(key, "ranking", fmt.Sprintf("%s: slice `qualifier=rw` holds %v (want %v), slice `qualifier=ro` holds %v (want %v)", desc, gs, want("rw"), gt, want("ro")), cs)
		case !okF:
			c.Outcome("late/single")
			c.Report(key, "ranking", fmt.Sprintf("%s: single point `qualifier=rw` holds %s, admissible %v", desc, f, want("rw")), cs)
		default:
			c.Outcome("late/ok")
		}
		c.Sample(map[string]any{"case": cs})
	})
}
