// instr: typed source rewriter. Loads the non-test packages of the repository's *current working
// tree* and writes a `go build -overlay` description that
//  1. rewrites the import of "sync" to the verification shim (virtual package util/vsync),
//  2. rewrites `go f(a...)` into `{ f0, a0 := f, a; sync.Go(func(){ f0(a0...) }) }`,
//  3. rewrites `for k, v := range m` over Go maps into a range over sync.MapKeys(m),
//  4. adds the shim package and the factory hook file.
//
// Unsupported concurrency constructs in repository code (channels, select, sync.Cond, time.Sleep)
// are reported as an engine error (exit 2): the scheduler cannot model them, and silently
// exploring a program it does not control would be worse than refusing.
//
// usage: instr <repo> <outdir> <shimdir>
package main

import (
	"bytes"
	"encoding/json"
	"fmt"
	"go/ast"
	"go/format"
	"go/token"
	"go/types"
	"os"
	"path/filepath"
	"sort"
	"strconv"
	"strings"

	"golang.org/x/tools/go/ast/astutil"
	"golang.org/x/tools/go/packages"
)

const shimPath = "github.com/go-kid/ioc/util/vsync"

func fatal(f string, a ...any) {
	fmt.Fprintf(os.Stderr, "instr: "+f+"\n", a...)
	os.Exit(2)
}

func skipPkg(p string) bool {
	return strings.Contains(p, "/unittest") || strings.Contains(p, "/examples") || strings.Contains(p, "performance_analyst") || strings.HasSuffix(p, "/util/vsync")
}

func main() {
	if len(os.Args) != 4 {
		fatal("usage: instr <repo> <outdir> <shimdir>")
	}
	repo, out, shim := os.Args[1], os.Args[2], os.Args[3]
	if err := os.MkdirAll(out, 0o755); err != nil {
		fatal("%v", err)
	}
	cfg := &packages.Config{Mode: packages.NeedName | packages.NeedFiles | packages.NeedCompiledGoFiles | packages.NeedSyntax | packages.NeedTypes | packages.NeedTypesInfo | packages.NeedImports, Dir: repo, Tests: false}
	pkgs, err := packages.Load(cfg, "./...")
	if err != nil {
		fatal("load: %v", err)
	}
	overlay := map[string]string{}
	var log []string
	for _, pkg := range pkgs {
		if skipPkg(pkg.PkgPath) {
			continue
		}
		if len(pkg.Errors) > 0 {
			fatal("package %s does not type-check: %v", pkg.PkgPath, pkg.Errors)
		}
		for fi, f := range pkg.Syntax {
			p := pkg.CompiledGoFiles[fi]
			changed, hasSyncImport, needShim := false, false, false
			for _, im := range f.Imports {
				if im.Path.Value == `"sync"` {
					if im.Name != nil && im.Name.Name != "sync" {
						fatal("%s: renamed sync import not supported", p)
					}
					im.Path.Value = strconv.Quote(shimPath)
					im.Name = ast.NewIdent("sync")
					changed, hasSyncImport = true, true
				}
			}
			// refuse what the scheduler cannot model
			ast.Inspect(f, func(nd ast.Node) bool {
				switch x := nd.(type) {
				case *ast.RangeStmt:
					if tv, ok := pkg.TypesInfo.Types[x.X]; ok {
						if _, isChan := tv.Type.Underlying().(*types.Chan); isChan && x.Tok != token.DEFINE && x.Key != nil {
							fatal("%s: range over channel with '=' at %s is not supported by the scheduler", p, pkg.Fset.Position(nd.Pos()))
						}
					}
				case *ast.SelectorExpr:
					if id, ok := x.X.(*ast.Ident); ok {
						if pn, ok := pkg.TypesInfo.Uses[id].(*types.PkgName); ok {
							ip, name := pn.Imported().Path(), x.Sel.Name
							if (ip == "sync" && (name == "Cond" || name == "NewCond" || name == "Pool")) ||
								(ip == "time" && (name == "Tick" || name == "NewTimer" || name == "NewTicker" || name == "AfterFunc")) ||
								(ip == "context" && (name == "WithTimeout" || name == "WithDeadline" || name == "WithTimeoutCause" || name == "WithDeadlineCause")) {
								fatal("%s: %s.%s at %s is not supported by the scheduler", p, ip, name, pkg.Fset.Position(nd.Pos()))
							}
						}
					}
				}
				return true
			})
			n := 0
			// channel operations -> shim calls
			shimCall := func(name string, args ...ast.Expr) *ast.CallExpr {
				return &ast.CallExpr{Fun: &ast.SelectorExpr{X: ast.NewIdent("sync"), Sel: ast.NewIdent(name)}, Args: args}
			}
			isChan := func(e ast.Expr) bool {
				tv, ok := pkg.TypesInfo.Types[e]
				if !ok {
					return false
				}
				_, c := tv.Type.Underlying().(*types.Chan)
				return c
			}
			recv2 := map[ast.Expr]bool{}
			inComm := map[ast.Node]bool{} // communication operations of select clauses: rewritten with the select
			ast.Inspect(f, func(nd ast.Node) bool {
				switch x := nd.(type) {
				case *ast.SelectStmt:
					for _, cl := range x.Body.List {
						switch cm := cl.(*ast.CommClause).Comm.(type) {
						case *ast.SendStmt:
							inComm[cm] = true
						case *ast.ExprStmt:
							inComm[cm.X] = true
						case *ast.AssignStmt:
							inComm[cm.Rhs[0]] = true
						}
					}
				case *ast.AssignStmt:
					if len(x.Lhs) == 2 && len(x.Rhs) == 1 {
						if u, ok := x.Rhs[0].(*ast.UnaryExpr); ok && u.Op == token.ARROW {
							recv2[u] = true
						}
					}
				case *ast.ValueSpec:
					if len(x.Names) == 2 && len(x.Values) == 1 {
						if u, ok := x.Values[0].(*ast.UnaryExpr); ok && u.Op == token.ARROW {
							recv2[u] = true
						}
					}
				}
				return true
			})
			astutil.Apply(f, nil, func(cur *astutil.Cursor) bool {
				switch x := cur.Node().(type) {
				case *ast.SelectStmt:
					if _, labelled := cur.Parent().(*ast.LabeledStmt); labelled {
						fatal("%s: labelled select at %s is not supported", p, pkg.Fset.Position(x.Pos()))
					}
					n++
					var decls []ast.Stmt
					var args []ast.Expr
					var clauses []ast.Stmt
					hasDefault := "false"
					idx := 0
					for _, cl := range x.Body.List {
						cc := cl.(*ast.CommClause)
						if cc.Comm == nil {
							hasDefault = "true"
							clauses = append(clauses, &ast.CaseClause{List: []ast.Expr{&ast.UnaryExpr{Op: token.SUB, X: &ast.BasicLit{Kind: token.INT, Value: "1"}}}, Body: cc.Body})
							continue
						}
						cid := ast.NewIdent(fmt.Sprintf("__sc%d_%d", n, idx))
						var pre []ast.Stmt
						switch cm := cc.Comm.(type) {
						case *ast.SendStmt:
							vid := ast.NewIdent(fmt.Sprintf("__sv%d_%d", n, idx))
							decls = append(decls, &ast.AssignStmt{Lhs: []ast.Expr{cid, vid}, Tok: token.DEFINE, Rhs: []ast.Expr{cm.Chan, cm.Value}})
							args = append(args, shimCall("SelSend", cid, vid))
						default:
							var recv *ast.UnaryExpr
							var asg *ast.AssignStmt
							if es, ok := cm.(*ast.ExprStmt); ok {
								recv = es.X.(*ast.UnaryExpr)
							} else {
								asg = cm.(*ast.AssignStmt)
								recv = asg.Rhs[0].(*ast.UnaryExpr)
							}
							rid, oid := ast.NewIdent(fmt.Sprintf("__sr%d_%d", n, idx)), ast.NewIdent(fmt.Sprintf("__so%d_%d", n, idx))
							decls = append(decls,
								&ast.AssignStmt{Lhs: []ast.Expr{cid}, Tok: token.DEFINE, Rhs: []ast.Expr{recv.X}},
								&ast.AssignStmt{Lhs: []ast.Expr{rid, oid}, Tok: token.DEFINE, Rhs: []ast.Expr{shimCall("ZeroRecv", cid)}})
							args = append(args, shimCall("SelRecv", cid, &ast.UnaryExpr{Op: token.AND, X: rid}, &ast.UnaryExpr{Op: token.AND, X: oid}))
							if asg != nil {
								rhs := []ast.Expr{rid}
								if len(asg.Lhs) == 2 {
									rhs = append(rhs, oid)
								}
								pre = append(pre, &ast.AssignStmt{Lhs: asg.Lhs, Tok: asg.Tok, Rhs: rhs})
							}
						}
						clauses = append(clauses, &ast.CaseClause{List: []ast.Expr{&ast.BasicLit{Kind: token.INT, Value: strconv.Itoa(idx)}}, Body: append(pre, cc.Body...)})
						idx++
					}
					sel := shimCall("Select", append([]ast.Expr{ast.NewIdent(hasDefault)}, args...)...)
					cur.Replace(&ast.BlockStmt{List: append(decls, &ast.SwitchStmt{Tag: sel, Body: &ast.BlockStmt{List: clauses}})})
					changed, needShim = true, true
				case *ast.UnaryExpr:
					if x.Op == token.ARROW && !inComm[x] {
						n++
						if recv2[x] {
							cur.Replace(shimCall("ChanRecv2", x.X))
						} else {
							cur.Replace(shimCall("ChanRecv", x.X))
						}
						changed, needShim = true, true
					}
				case *ast.SendStmt:
					if inComm[x] {
						break
					}
					n++
					cid := ast.NewIdent(fmt.Sprintf("__vc%d", n))
					lhs, rhs := []ast.Expr{cid}, []ast.Expr{x.Chan}
					var val ast.Expr = x.Value
					if tv, ok := pkg.TypesInfo.Types[x.Value]; !ok || tv.Value == nil {
						// not a constant: evaluate the value now, as the send statement would
						vid := ast.NewIdent(fmt.Sprintf("__vv%d", n))
						lhs, rhs = append(lhs, vid), append(rhs, x.Value)
						val = vid
					}
					op := &ast.FuncLit{Type: &ast.FuncType{Params: &ast.FieldList{}}, Body: &ast.BlockStmt{List: []ast.Stmt{&ast.SendStmt{Chan: cid, Value: val}}}}
					cur.Replace(&ast.BlockStmt{List: []ast.Stmt{
						&ast.AssignStmt{Lhs: lhs, Tok: token.DEFINE, Rhs: rhs},
						&ast.ExprStmt{X: shimCall("ChanSendFn", cid, op)},
					}})
					changed, needShim = true, true
				case *ast.SelectorExpr:
					if id, ok := x.X.(*ast.Ident); ok && (x.Sel.Name == "After" || x.Sel.Name == "Sleep") {
						if pn, ok := pkg.TypesInfo.Uses[id].(*types.PkgName); ok && pn.Imported().Path() == "time" {
							n++
							cur.Replace(&ast.SelectorExpr{X: ast.NewIdent("sync"), Sel: ast.NewIdent(x.Sel.Name)})
							changed, needShim = true, true
						}
					}
				case *ast.CallExpr:
					if id, ok := x.Fun.(*ast.Ident); ok && id.Name == "close" && len(x.Args) == 1 {
						if _, isBuiltin := pkg.TypesInfo.Uses[id].(*types.Builtin); isBuiltin {
							n++
							cur.Replace(shimCall("ChanClose", x.Args[0]))
							changed, needShim = true, true
						}
					}
				case *ast.RangeStmt:
					if isChan(x.X) {
						if _, labelled := cur.Parent().(*ast.LabeledStmt); labelled {
							fatal("%s: labelled range over a channel at %s is not supported", p, pkg.Fset.Position(x.Pos()))
						}
						n++
						cid := ast.NewIdent(fmt.Sprintf("__vc%d", n))
						okid := ast.NewIdent(fmt.Sprintf("__vok%d", n))
						var key ast.Expr = ast.NewIdent("_")
						if x.Key != nil {
							key = x.Key
						}
						recv := &ast.AssignStmt{Lhs: []ast.Expr{key, okid}, Tok: token.DEFINE, Rhs: []ast.Expr{shimCall("ChanRecv2", cid)}}
						brk := &ast.IfStmt{Cond: &ast.UnaryExpr{Op: token.NOT, X: okid}, Body: &ast.BlockStmt{List: []ast.Stmt{&ast.BranchStmt{Tok: token.BREAK}}}}
						body := &ast.BlockStmt{List: append([]ast.Stmt{recv, brk}, x.Body.List...)}
						cur.Replace(&ast.BlockStmt{List: []ast.Stmt{
							&ast.AssignStmt{Lhs: []ast.Expr{cid}, Tok: token.DEFINE, Rhs: []ast.Expr{x.X}},
							&ast.ForStmt{Body: body},
						}})
						changed, needShim = true, true
					}
				}
				return true
			})
			var rewrite func(list []ast.Stmt)
			rewrite = func(list []ast.Stmt) {
				for i, st := range list {
					if ls, ok := st.(*ast.LabeledStmt); ok {
						if _, isRange := ls.Stmt.(*ast.RangeStmt); isRange {
							if tv, ok := pkg.TypesInfo.Types[ls.Stmt.(*ast.RangeStmt).X]; ok {
								if _, isMap := tv.Type.Underlying().(*types.Map); isMap {
									fatal("%s: labelled range over a map at %s is not supported", p, pkg.Fset.Position(st.Pos()))
								}
							}
						}
					}
					switch s := st.(type) {
					case *ast.GoStmt:
						n++
						call := s.Call
						var l, r []ast.Expr
						fid := ast.NewIdent(fmt.Sprintf("__vf%d", n))
						l, r = append(l, fid), append(r, call.Fun)
						var args []ast.Expr
						for j, a := range call.Args {
							id := ast.NewIdent(fmt.Sprintf("__va%d_%d", n, j))
							l, r = append(l, id), append(r, a)
							args = append(args, id)
						}
						inner := &ast.CallExpr{Fun: fid, Args: args, Ellipsis: call.Ellipsis}
						lit := &ast.FuncLit{Type: &ast.FuncType{Params: &ast.FieldList{}}, Body: &ast.BlockStmt{List: []ast.Stmt{&ast.ExprStmt{X: inner}}}}
						goCall := &ast.ExprStmt{X: &ast.CallExpr{Fun: &ast.SelectorExpr{X: ast.NewIdent("sync"), Sel: ast.NewIdent("Go")}, Args: []ast.Expr{lit}}}
						list[i] = &ast.BlockStmt{List: []ast.Stmt{&ast.AssignStmt{Lhs: l, Tok: token.DEFINE, Rhs: r}, goCall}}
						changed, needShim = true, true
					case *ast.RangeStmt:
						tv, ok := pkg.TypesInfo.Types[s.X]
						if !ok {
							continue
						}
						if _, isMap := tv.Type.Underlying().(*types.Map); !isMap {
							continue
						}
						if s.Tok != token.DEFINE && (s.Key != nil || s.Value != nil) {
							fatal("%s: range over a map with '=' at %s is not supported", p, pkg.Fset.Position(st.Pos()))
						}
						n++
						mid := ast.NewIdent(fmt.Sprintf("__vm%d", n))
						key := s.Key
						if key == nil || isBlank(key) {
							key = ast.NewIdent(fmt.Sprintf("__vk%d", n))
						}
						body := s.Body
						if s.Value != nil && !isBlank(s.Value) {
							asg := &ast.AssignStmt{Lhs: []ast.Expr{s.Value}, Tok: token.DEFINE, Rhs: []ast.Expr{&ast.IndexExpr{X: mid, Index: key}}}
							body = &ast.BlockStmt{List: append([]ast.Stmt{asg}, s.Body.List...)}
						}
						loop := &ast.RangeStmt{Key: ast.NewIdent("_"), Value: key, Tok: token.DEFINE, X: &ast.CallExpr{Fun: &ast.SelectorExpr{X: ast.NewIdent("sync"), Sel: ast.NewIdent("MapKeys")}, Args: []ast.Expr{mid}}, Body: body}
						list[i] = &ast.BlockStmt{List: []ast.Stmt{&ast.AssignStmt{Lhs: []ast.Expr{mid}, Tok: token.DEFINE, Rhs: []ast.Expr{s.X}}, loop}}
						changed, needShim = true, true
					}
				}
			}
			ast.Inspect(f, func(nd ast.Node) bool {
				switch x := nd.(type) {
				case *ast.BlockStmt:
					rewrite(x.List)
				case *ast.CaseClause:
					rewrite(x.Body)
				case *ast.CommClause:
					rewrite(x.Body)
				}
				return true
			})
			if !changed {
				continue
			}
			if needShim && !hasSyncImport {
				for _, im := range f.Imports {
					if im.Name != nil && im.Name.Name == "sync" {
						fatal("%s: identifier sync already names another import", p)
					}
				}
				f.Decls = append([]ast.Decl{&ast.GenDecl{Tok: token.IMPORT, Specs: []ast.Spec{&ast.ImportSpec{Name: ast.NewIdent("sync"), Path: &ast.BasicLit{Kind: token.STRING, Value: strconv.Quote(shimPath)}}}}}, f.Decls...)
			}
			var buf bytes.Buffer
			if err := format.Node(&buf, pkg.Fset, f); err != nil {
				fatal("format %s: %v", p, err)
			}
			rel, _ := filepath.Rel(repo, p)
			dst := filepath.Join(out, strings.ReplaceAll(rel, "/", "__"))
			if err := os.WriteFile(dst, buf.Bytes(), 0o644); err != nil {
				fatal("%v", err)
			}
			overlay[p] = dst
			log = append(log, fmt.Sprintf("%s rewrites=%d syncImport=%v", rel, n, hasSyncImport))
		}
	}
	ents, err := os.ReadDir(filepath.Join(shim, "vsync"))
	if err != nil {
		fatal("%v", err)
	}
	for _, e := range ents {
		overlay[filepath.Join(repo, "util/vsync", e.Name())] = filepath.Join(shim, "vsync", e.Name())
	}
	overlay[filepath.Join(repo, "container/factory/zz_factory_verif.go")] = filepath.Join(shim, "factory", "factory_verif.go")
	overlay[filepath.Join(repo, "syslog/zz_reset_verif.go")] = filepath.Join(shim, "syslog", "reset_verif.go")
	b, _ := json.MarshalIndent(map[string]any{"Replace": overlay}, "", " ")
	if err := os.WriteFile(filepath.Join(out, "overlay.json"), b, 0o644); err != nil {
		fatal("%v", err)
	}
	sort.Strings(log)
	os.WriteFile(filepath.Join(out, "instrumented.txt"), []byte(strings.Join(log, "\n")+"\n"), 0o644)
}

func isBlank(e ast.Expr) bool {
	id, ok := e.(*ast.Ident)
	return ok && id.Name == "_"
}
